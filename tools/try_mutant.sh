#!/bin/bash
# usage: try_mutant.sh <patch.diff> <check> [<check> ...]
# Applies a seeded change to /repo, runs the given checks (quick tier), prints their verdict lines, and undoes the change.
set -u
patch=$1; shift
cd /repo || exit 2
git diff --quiet || { echo "/repo is dirty"; exit 2; }
git apply "$patch" || { echo "patch does not apply to /repo"; exit 2; }
trap 'git -C /repo checkout -- .' EXIT
for c in "$@"; do
  start=$(date +%s)
  out=$(cd /verif && ./check "$c" --tier "${TIER:-quick}" 2>&1); code=$?
  end=$(date +%s)
  echo "[$c] exit=$code $((end-start))s"
  echo "$out" | grep -E "^(VIOLATION|  \[|      case|check: machinery|check: C)" | head -12
done
