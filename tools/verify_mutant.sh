#!/bin/bash
# usage: verify_mutant.sh <name>   (worktree /tmp/mut/<name>, deliverables in OUT/)
# Confirms independently: patch applies to a clean tree and compiles; the 179 baseline tests still pass with it;
# the demonstration fails with the change and passes without it.
set -u
d=/tmp/mut/$1
cd "$d" || exit 2
export CARGO_TARGET_DIR=$d/target
unset RUSTFLAGS
git checkout -q -- src 2>/dev/null
git stash list >/dev/null
rm -f tests/verif_demo.rs
if ! git apply --check OUT/patch.diff 2>/dev/null; then echo "PATCH DOES NOT APPLY"; exit 1; fi
demo=OUT/demo.rs
[ -f "$demo" ] || { echo "no demo.rs"; exit 1; }
cp "$demo" tests/verif_demo.rs
echo "== demo WITHOUT change"
timeout 900 cargo test --offline --test verif_demo 2>&1 | tail -5 | sed 's/^/   /'
without=${PIPESTATUS[0]}
git apply OUT/patch.diff
echo "== build WITH change"; cargo build --offline 2>&1 | tail -1
echo "== demo WITH change"
timeout 900 cargo test --offline --test verif_demo 2>&1 | tail -8 | sed 's/^/   /'
with=${PIPESTATUS[0]}
echo "== baseline WITH change"
rm -f tests/verif_demo.rs
timeout 1500 cargo nextest run --workspace --no-fail-fast --tool-config-file pb:/w/lib/nextest.toml --profile pb --test-threads 8 --offline >/tmp/mut/$1.nextest.log 2>&1
python3 - "$d" <<'PY'
import json,sys,xml.etree.ElementTree as ET
base=set(json.load(open('/root/.vp/BASELINE.json'))['stable_pass'])
passed=set()
root=ET.parse(sys.argv[1]+'/target/nextest/pb/junit.xml').getroot()
for suite in root.iter('testsuite'):
    for tc in suite.iter('testcase'):
        if not any(ch.tag in ('failure','error') for ch in tc): passed.add(f"{suite.get('name')}::{tc.get('name')}")
missing=sorted(t for t in base if t not in passed)
print(f"   baseline: {len(base)-len(missing)}/{len(base)} pass", missing[:5])
PY
echo "RESULT name=$1 demo_without_exit=$without demo_with_exit=$with"
