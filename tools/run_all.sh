#!/bin/bash
# Runs every registered check (quick tier by default) and prints one summary line per property.
cd /verif || exit 2
TIER=${1:-quick}
rc=0
for p in $(./check --list | cut -d' ' -f1); do
  start=$(date +%s)
  out=$(./check "$p" --tier "$TIER" 2>&1); code=$?
  end=$(date +%s)
  echo "$p exit=$code $((end-start))s $(echo "$out" | grep -E '^check: C' | tail -1 | sed 's/^check: //')"
  echo "$out" | grep -E '^(VIOLATION|KNOWN-FINDING)' | cut -c1-200
  [ $code -ne 0 ] && rc=1
done
exit $rc
