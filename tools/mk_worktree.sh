#!/bin/bash
# usage: mk_worktree.sh <name>  -> creates /tmp/mut/<name> as a detached worktree of /repo HEAD (with Cargo.lock)
set -e
d=/tmp/mut/$1
mkdir -p /tmp/mut
git -C /repo worktree add --detach "$d" HEAD >/dev/null 2>&1
cp /repo/Cargo.lock "$d/Cargo.lock"
mkdir -p "$d/OUT"
echo "$d"
