#!/bin/bash
# Runs the repository's own test suite with all verification guards OFF and compares the set of
# passing tests with the 179 tests of /root/.vp/BASELINE.json. Exit 0 iff every baseline test passes.
set -u
cd /repo || exit 2
unset RUSTFLAGS
LOG=${1:-/tmp/baseline_$$.log}
cargo nextest run --workspace --no-fail-fast --tool-config-file pb:/w/lib/nextest.toml --profile pb --test-threads 8 --offline >"$LOG" 2>&1
python3 - "$LOG" <<'PY'
import json,sys,xml.etree.ElementTree as ET
base=set(json.load(open('/root/.vp/BASELINE.json'))['stable_pass'])
passed=set(); failed=set()
root=ET.parse('/repo/target/nextest/pb/junit.xml').getroot()
for suite in root.iter('testsuite'):
    sname=suite.get('name')
    for tc in suite.iter('testcase'):
        name=f"{sname}::{tc.get('name')}"
        bad=any(ch.tag in ('failure','error') for ch in tc)
        (failed if bad else passed).add(name)
missing=sorted(t for t in base if t not in passed)
print(f"baseline tests: {len(base)}  passing now: {len(base)-len(missing)}  missing: {len(missing)}  (suite total: {len(passed)} passed, {len(failed)} failed)")
for t in missing[:20]: print("  MISSING", t)
sys.exit(1 if missing else 0)
PY
