#!/bin/bash
# Runs the repository's own test suite with all verification guards OFF and compares the set of
# passing tests with the 179 tests of /root/.vp/BASELINE.json. Exit 0 iff every baseline test passes.
set -u
cd /repo || exit 2
unset RUSTFLAGS
LOG=${1:-/tmp/baseline_$$.log}
cargo nextest run --workspace --no-fail-fast --tool-config-file pb:/w/lib/nextest.toml --profile pb --test-threads 8 --offline >"$LOG" 2>&1
python3 - "$LOG" <<'PY'
import json,re,sys
base=set(json.load(open('/root/.vp/BASELINE.json'))['stable_pass'])
passed=set()
for l in open(sys.argv[1],errors='replace'):
    m=re.match(r'\s*PASS\s+\[[^\]]*\]\s+(\S+)\s+(\S+)',l)
    if m:
        binid,name=m.group(1),m.group(2)
        # lzma-rust2::lzip round_trip_executable_0  /  lzma-rust2 filter::bcj::tests::...
        passed.add(f"{binid}::{name}" if '::' in binid else f"{binid}::{name}")
missing=sorted(t for t in base if t not in passed)
print(f"baseline tests: {len(base)}  passing now: {len(base)-len(missing)}  missing: {len(missing)}")
for t in missing[:20]: print("  MISSING", t)
sys.exit(1 if missing else 0)
PY
