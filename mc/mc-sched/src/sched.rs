//! E-sched: stateless preemption-bounded depth-first exploration of all thread interleavings
//! of a closed scenario running on the real MT code, under shuttle's runtime with our own
//! `Scheduler` (CHESS-style iterative context bounding; no sampling anywhere).
//!
//! At every scheduling point the enabled tasks are put in canonical order (the running task
//! first if it is still enabled, then ascending task id). Choosing any task other than a
//! still-enabled running task costs one preemption; choices at points where the running task
//! blocked, yielded or finished are free and all of them are explored.

use mc_core::run::{catch, PanicInfo};
use shuttle::scheduler::{Schedule, Scheduler, Task, TaskId};
use std::sync::{Arc, Mutex};

#[derive(Clone, Debug)]
struct Frame {
    enabled: Vec<u32>,
    idx: usize,
    pre_before: u32,
    running_enabled: bool,
}

impl Frame {
    fn cost(&self, idx: usize) -> u32 {
        (self.running_enabled && idx != 0) as u32
    }
}

#[derive(Clone, Debug)]
pub enum EndKind {
    Completed,
    /// panic inside the execution: a task panicked, the runtime detected a deadlock
    /// ("deadlock! blocked tasks: ...") or the step horizon was exceeded
    Failed(PanicInfo),
}

pub struct ExecInfo {
    /// chosen task id at every scheduling point
    pub schedule: Vec<u32>,
    pub preemptions: u32,
}

#[derive(Default, Clone, Debug)]
pub struct Stats {
    pub executions: u64,
    pub failed: u64,
    pub states: u64,
    pub transitions: u64,
    pub max_depth: usize,
    pub by_preemptions: Vec<u64>,
    pub capped: bool,
    pub divergences: u64,
    pub max_enabled: usize,
}

impl Stats {
    pub fn merge(&mut self, o: &Stats) {
        self.executions += o.executions;
        self.failed += o.failed;
        self.states += o.states;
        self.transitions += o.transitions;
        self.max_depth = self.max_depth.max(o.max_depth);
        self.max_enabled = self.max_enabled.max(o.max_enabled);
        if self.by_preemptions.len() < o.by_preemptions.len() {
            self.by_preemptions.resize(o.by_preemptions.len(), 0);
        }
        for (i, v) in o.by_preemptions.iter().enumerate() {
            self.by_preemptions[i] += v;
        }
        self.capped |= o.capped;
        self.divergences += o.divergences;
    }
}

type EndFn = dyn Fn(&ExecInfo, &EndKind) + Send + Sync;

struct Shared {
    bound: u32,
    max_execs: u64,
    frames: Vec<Frame>,
    depth: usize,
    started: bool,
    exhausted: bool,
    diverged_now: bool,
    /// replay mode: follow these task ids, then the default choice
    forced: Option<Vec<u32>>,
    stats: Stats,
    on_end: Arc<EndFn>,
}

impl Shared {
    fn finish_execution(&mut self, kind: EndKind) {
        if !self.started {
            return;
        }
        self.started = false;
        self.frames.truncate(self.depth);
        self.stats.executions += 1;
        self.stats.transitions += self.depth as u64;
        self.stats.max_depth = self.stats.max_depth.max(self.depth);
        let pre = self.frames.last().map(|f| f.pre_before + f.cost(f.idx)).unwrap_or(0);
        let b = self.bound as usize;
        if self.stats.by_preemptions.len() <= b {
            self.stats.by_preemptions.resize(b + 1, 0);
        }
        self.stats.by_preemptions[(pre as usize).min(b)] += 1;
        if matches!(kind, EndKind::Failed(_)) {
            self.stats.failed += 1;
        }
        if self.diverged_now {
            self.stats.divergences += 1;
            self.diverged_now = false;
        } else {
            let info = ExecInfo {
                schedule: self.frames.iter().map(|f| f.enabled[f.idx]).collect(),
                preemptions: pre,
            };
            (self.on_end)(&info, &kind);
        }
        if self.forced.is_some() {
            self.exhausted = true;
            return;
        }
        // backtrack to the deepest frame that still has an unexplored alternative within the bound
        loop {
            let Some(mut f) = self.frames.pop() else {
                self.exhausted = true;
                break;
            };
            let mut next = None;
            for i in f.idx + 1..f.enabled.len() {
                if f.pre_before + f.cost(i) <= self.bound {
                    next = Some(i);
                    break;
                }
            }
            if let Some(i) = next {
                f.idx = i;
                self.frames.push(f);
                break;
            }
        }
    }
}

pub struct PbDfs {
    shared: Arc<Mutex<Shared>>,
}

impl Scheduler for PbDfs {
    fn new_execution(&mut self) -> Option<Schedule> {
        let mut s = self.shared.lock().unwrap();
        if s.started {
            s.finish_execution(EndKind::Completed);
        }
        if s.exhausted {
            return None;
        }
        if s.stats.executions >= s.max_execs {
            s.stats.capped = true;
            return None;
        }
        s.depth = 0;
        s.started = true;
        Some(Schedule::new(0))
    }

    fn next_task(&mut self, runnable: &[&Task], current: Option<TaskId>, is_yielding: bool) -> Option<TaskId> {
        let mut s = self.shared.lock().unwrap();
        let cur = current.map(|t| usize::from(t) as u32);
        let mut en: Vec<u32> = runnable.iter().map(|t| usize::from(t.id()) as u32).collect();
        en.sort_unstable();
        let mut running_enabled = false;
        if let Some(c) = cur {
            if let Some(p) = en.iter().position(|x| *x == c) {
                en.remove(p);
                if is_yielding {
                    // a yielding task is deprioritised and switching away from it is free
                    en.push(c);
                } else {
                    en.insert(0, c);
                    running_enabled = true;
                }
            }
        }
        s.stats.max_enabled = s.stats.max_enabled.max(en.len());
        let d = s.depth;
        let choice;
        if d < s.frames.len() {
            let f = &s.frames[d];
            if f.enabled != en {
                // The replayed prefix met a different set of enabled tasks: uncontrolled
                // nondeterminism. Hard machinery error, never a verdict.
                s.diverged_now = true;
                return None;
            }
            choice = f.enabled[f.idx];
        } else {
            let pre_before = if d == 0 { 0 } else { s.frames[d - 1].pre_before + s.frames[d - 1].cost(s.frames[d - 1].idx) };
            let mut idx = 0;
            if let Some(forced) = &s.forced {
                if let Some(want) = forced.get(d) {
                    match en.iter().position(|x| x == want) {
                        Some(p) => idx = p,
                        None => {
                            s.diverged_now = true;
                            return None;
                        }
                    }
                }
            }
            choice = en[idx];
            s.frames.push(Frame { enabled: en, idx, pre_before, running_enabled });
            s.stats.states += 1;
        }
        s.depth += 1;
        Some(TaskId::from(choice as usize))
    }

    fn next_u64(&mut self) -> u64 {
        0
    }
}

pub const STEP_HORIZON: usize = 20_000;

fn config() -> shuttle::Config {
    let mut cfg = shuttle::Config::new();
    cfg.stack_size = 1 << 20;
    cfg.silence_warnings = true;
    cfg.failure_persistence = shuttle::FailurePersistence::None;
    cfg.max_steps = shuttle::MaxSteps::FailAfter(STEP_HORIZON);
    cfg
}

/// Explore every interleaving of `body` with at most `bound` preemptions (or replay `forced`).
/// `on_end` is called once per execution with the schedule and how it ended.
pub fn explore(
    bound: u32,
    max_execs: u64,
    forced: Option<Vec<u32>>,
    body: Arc<dyn Fn() + Send + Sync>,
    on_end: Arc<EndFn>,
) -> Stats {
    let shared = Arc::new(Mutex::new(Shared {
        bound,
        max_execs,
        frames: vec![],
        depth: 0,
        started: false,
        exhausted: false,
        diverged_now: false,
        forced,
        stats: Stats { by_preemptions: vec![0; bound as usize + 1], ..Default::default() },
        on_end,
    }));
    loop {
        let sched = PbDfs { shared: shared.clone() };
        let runner = shuttle::Runner::new(sched, config());
        let b = body.clone();
        let r = catch(move || {
            runner.run(move || b());
        });
        let mut s = shared.lock().unwrap_or_else(|e| e.into_inner());
        match r {
            Ok(()) => {
                // the runner stopped because new_execution returned None
                if s.started {
                    s.finish_execution(EndKind::Completed);
                }
                break;
            }
            Err(p) => {
                s.finish_execution(EndKind::Failed(p));
                if s.exhausted {
                    break;
                }
            }
        }
    }
    let s = shared.lock().unwrap();
    s.stats.clone()
}

/// Run-length encoded schedule string, e.g. "0*5.1*2.0*3".
pub fn schedule_desc(s: &[u32]) -> String {
    let mut out = String::new();
    let mut i = 0;
    while i < s.len() {
        let mut j = i;
        while j < s.len() && s[j] == s[i] {
            j += 1;
        }
        if !out.is_empty() {
            out.push('.');
        }
        if j - i == 1 {
            out.push_str(&format!("{}", s[i]));
        } else {
            out.push_str(&format!("{}*{}", s[i], j - i));
        }
        i = j;
    }
    if out.is_empty() {
        out.push('-');
    }
    out
}

pub fn parse_schedule(s: &str) -> Option<Vec<u32>> {
    if s == "-" {
        return Some(vec![]);
    }
    let mut out = vec![];
    for part in s.split('.') {
        if let Some((t, n)) = part.split_once('*') {
            let t: u32 = t.parse().ok()?;
            let n: usize = n.parse().ok()?;
            out.extend(std::iter::repeat(t).take(n));
        } else {
            out.push(part.parse().ok()?);
        }
    }
    Some(out)
}
