//! Closed scenarios driving the real MT readers/writers, and the observation each execution yields.

use lzma_rust2::verif::{census, queue::Queue};
use lzma_rust2::{
    EncodeMode, LZIPOptions, LZIPReader, LZIPReaderMT, LZIPWriter, LZIPWriterMT, LZMA2Options,
    LZMA2Reader, LZMA2ReaderMT, LZMA2Writer, LZMA2WriterMT, LZMAOptions, MFType,
};
use mc_core::gen::{self, Seg};
use mc_core::report::fnv;
use std::cell::RefCell;
use std::io::{self, Cursor, ErrorKind, Read, Seek, SeekFrom, Write};
use std::num::NonZeroU64;
use std::sync::Arc;

pub const DICT: u32 = 4096;
pub const UNIT: usize = 4096;

pub fn lzma_opts() -> LZMAOptions {
    LZMAOptions::new(DICT, 3, 0, 2, EncodeMode::Fast, 32, MFType::HC4, 0)
}

pub fn lzma2_opts(chunk: u64) -> LZMA2Options {
    LZMA2Options { lzma_options: lzma_opts(), chunk_size: NonZeroU64::new(chunk) }
}

pub fn lzip_opts(member: u64) -> LZIPOptions {
    LZIPOptions { lzma_options: lzma_opts(), member_size: NonZeroU64::new(member) }
}

/// What one execution of a scenario observed. Written by the scenario body into a thread-local
/// (all tasks of an execution run on one OS thread) and judged when the execution has ended.
#[derive(Clone, Debug, Default)]
pub struct Obs {
    /// where the driver is: "new", "read#3", "write#1", "flush", "finish", "drop", "returned"
    pub phase: String,
    /// results of the driver's calls in order, e.g. "ok:12", "err:InvalidData"
    pub calls: Vec<String>,
    /// final classification: Some(Ok(bytes)) or Some(Err(kind text))
    pub result: Option<Result<Vec<u8>, String>>,
    pub unit_count: Option<u64>,
    pub fault_fired: bool,
    pub sink_calls: u32,
}

thread_local! {
    pub static OBS: RefCell<Obs> = RefCell::new(Obs::default());
}

pub fn obs_reset() {
    OBS.with(|o| *o.borrow_mut() = Obs::default());
    census::reset();
}

pub fn obs_phase(p: impl Into<String>) {
    OBS.with(|o| o.borrow_mut().phase = p.into());
}

pub fn obs_call(c: String) {
    OBS.with(|o| o.borrow_mut().calls.push(c));
}

pub fn obs_take() -> Obs {
    OBS.with(|o| std::mem::take(&mut *o.borrow_mut()))
}

fn errtext(e: &io::Error) -> String {
    format!("{:?}", e.kind())
}

// ---------------------------------------------------------------- stream builders (run outside the scheduler)

/// k independent units, each one uncompressed chunk `01 00 02 x y z`, then the terminator.
pub fn stream_unc_units(k: usize) -> Vec<u8> {
    let mut v = vec![];
    for i in 0..k {
        v.extend_from_slice(&[0x01, 0x00, 0x02, b'a' + i as u8, b'b' + i as u8, b'c' + i as u8]);
    }
    v.push(0x00);
    v
}

/// The preset dictionary of the `W2P` scenarios.
pub fn preset_text() -> Vec<u8> {
    text_input(300, 5)
}

pub fn text_input(n: usize, salt: usize) -> Vec<u8> {
    let mut v = gen::build(&[Seg::C(n + salt)], 0);
    v.drain(..salt);
    v
}

/// Stream written by the real single-threaded writer: `k` full units of UNIT bytes (+ `extra`
/// bytes) with chunk_size = UNIT, so every unit starts with an independent chunk; `flush_at`
/// inserts flushes (creating dependent chunks inside a unit); `incompressible` makes the units
/// uncompressed chunks; `preset` uses a preset dictionary (first chunk then has no dict reset).
pub fn stream_lzma2(k: usize, extra: usize, flush_every: usize, incompressible: bool, preset: Option<&[u8]>) -> (Vec<u8>, Vec<u8>) {
    let n = k * UNIT + extra;
    let input = if incompressible { gen::build(&[Seg::R(n)], 7) } else { text_input(n, 13) };
    let mut o = lzma2_opts(UNIT as u64);
    if let Some(p) = preset {
        o.lzma_options.preset_dict = Some(p.to_vec());
    }
    let mut w = LZMA2Writer::new(Vec::new(), o);
    // The single-threaded writer looks at its chunk size only between write calls, so the input
    // is handed over unit by unit (and in smaller flushed steps inside a unit if requested).
    let mut off = 0;
    while off < input.len() {
        let unit_end = ((off / UNIT) + 1) * UNIT;
        let mut step = unit_end.min(input.len()) - off;
        if flush_every != 0 {
            step = step.min(flush_every);
        }
        w.write_all(&input[off..off + step]).unwrap();
        off += step;
        // (it also only counts bytes it has already emitted, hence the flush at unit ends)
        if flush_every != 0 || off % UNIT == 0 {
            w.flush().unwrap();
        }
    }
    let comp = w.finish().unwrap();
    (comp, input)
}

/// Two independent units of highly compressible data (period-48 text), so that the whole stream is only a few dozen
/// bytes per unit: the base of the C09 single-fault mutant family.
pub fn stream_lzma2_small(units: usize) -> (Vec<u8>, Vec<u8>) {
    let pat = text_input(48, 3);
    let input: Vec<u8> = pat.iter().cycle().take(units * UNIT).copied().collect();
    let mut w = LZMA2Writer::new(Vec::new(), lzma2_opts(UNIT as u64));
    for u in input.chunks(UNIT) {
        w.write_all(u).unwrap();
        w.flush().unwrap();
    }
    (w.finish().unwrap(), input)
}

/// Stream written by the real single-threaded writer from a pattern: one entry per unit, each a list of
/// (incompressible?, length) segments that are written and flushed one by one, so that a unit holds a chosen
/// sequence of chunk kinds (uncompressed / LZMA with and without state or property resets). The segment lengths
/// of every unit but the last should add up to UNIT.
pub fn stream_lzma2_pattern(units: &[Vec<(bool, usize)>], preset: Option<&[u8]>) -> (Vec<u8>, Vec<u8>) {
    let mut o = lzma2_opts(UNIT as u64);
    if let Some(p) = preset {
        o.lzma_options.preset_dict = Some(p.to_vec());
    }
    let mut w = LZMA2Writer::new(Vec::new(), o);
    let mut input = vec![];
    let mut salt = 0usize;
    for u in units {
        for &(raw, n) in u {
            salt += 1;
            let seg = if raw { gen::build(&[Seg::R(n)], 7 + salt as u64) } else { text_input(n, 13 * salt) };
            w.write_all(&seg).unwrap();
            w.flush().unwrap();
            input.extend_from_slice(&seg);
        }
    }
    let comp = w.finish().unwrap();
    (comp, input)
}

/// The control bytes of a well-formed LZMA2 stream, as text (for scenario names / evidence).
pub fn controls(stream: &[u8]) -> String {
    let mut i = 0;
    let mut out = vec![];
    while i < stream.len() {
        let c = stream[i];
        if c == 0 {
            break;
        }
        out.push(format!("{c:02x}"));
        if c >= 0x80 {
            if i + 5 > stream.len() {
                break;
            }
            let cs = u16::from_be_bytes([stream[i + 3], stream[i + 4]]) as usize + 1;
            i += 5 + if c >= 0xC0 { 1 } else { 0 } + cs;
        } else {
            if i + 3 > stream.len() {
                break;
            }
            let n = u16::from_be_bytes([stream[i + 1], stream[i + 2]]) as usize + 1;
            i += 3 + n;
        }
    }
    out.join(".")
}

pub fn st_decode_lzma2(stream: &[u8], preset: Option<&[u8]>) -> Result<Vec<u8>, String> {
    let mut r = LZMA2Reader::new(stream, DICT, preset);
    let mut out = vec![];
    match r.read_to_end(&mut out) {
        Ok(_) => Ok(out),
        Err(e) => Err(errtext(&e)),
    }
}

/// Number of independent units in a (well-formed) LZMA2 stream: chunks with control >= E0 or 01,
/// except that the first chunk always opens the first unit.
pub fn count_units(stream: &[u8]) -> u64 {
    let mut i = 0;
    let mut units = 0u64;
    let mut first = true;
    while i < stream.len() {
        let c = stream[i];
        if c == 0 {
            break;
        }
        if first || c >= 0xE0 || c == 0x01 {
            units += 1;
        }
        first = false;
        if c >= 0x80 {
            if i + 5 > stream.len() {
                break;
            }
            let cs = u16::from_be_bytes([stream[i + 3], stream[i + 4]]) as usize + 1;
            i += 5 + if c >= 0xC0 { 1 } else { 0 } + cs;
        } else {
            if i + 3 > stream.len() {
                break;
            }
            let n = u16::from_be_bytes([stream[i + 1], stream[i + 2]]) as usize + 1;
            i += 3 + n;
        }
    }
    units
}

pub fn stream_lzip(members: &[usize]) -> (Vec<u8>, Vec<u8>) {
    let mut comp = vec![];
    let mut all = vec![];
    for (i, n) in members.iter().enumerate() {
        let input = text_input(*n, 31 * (i + 1));
        let mut w = LZIPWriter::new(Vec::new(), lzip_opts(1 << 30));
        w.write_all(&input).unwrap();
        comp.extend_from_slice(&w.finish().unwrap());
        all.extend_from_slice(&input);
    }
    (comp, all)
}

/// Number of members of a well-formed LZIP file, walked backwards through the trailers.
pub fn count_members(stream: &[u8]) -> u64 {
    let mut end = stream.len();
    let mut n = 0;
    while end >= 26 {
        let ms = u64::from_le_bytes(stream[end - 8..end].try_into().unwrap()) as usize;
        if ms < 26 || ms > end {
            break;
        }
        end -= ms;
        n += 1;
    }
    n
}

pub fn st_decode_lzip(stream: &[u8]) -> Result<Vec<u8>, String> {
    let mut r = match LZIPReader::new(stream) {
        Ok(r) => r,
        Err(e) => return Err(errtext(&e)),
    };
    let mut out = vec![];
    match r.read_to_end(&mut out) {
        Ok(_) => Ok(out),
        Err(e) => Err(errtext(&e)),
    }
}

// ---------------------------------------------------------------- fault-injecting source / sink

pub const INJECTED: ErrorKind = ErrorKind::ConnectionReset;

/// Source that fails (sticky) from its `fail_at`-th read call on (1-based; 0 = never).
pub struct Src {
    data: Arc<Vec<u8>>,
    pos: usize,
    calls: usize,
    fail_at: usize,
}

impl Src {
    pub fn new(data: Arc<Vec<u8>>, fail_at: usize) -> Self {
        Src { data, pos: 0, calls: 0, fail_at }
    }
}

impl Read for Src {
    fn read(&mut self, buf: &mut [u8]) -> io::Result<usize> {
        self.calls += 1;
        if self.fail_at != 0 && self.calls >= self.fail_at {
            OBS.with(|o| o.borrow_mut().fault_fired = true);
            return Err(io::Error::new(INJECTED, "injected read error"));
        }
        let n = buf.len().min(self.data.len() - self.pos);
        buf[..n].copy_from_slice(&self.data[self.pos..self.pos + n]);
        self.pos += n;
        Ok(n)
    }
}

impl Seek for Src {
    fn seek(&mut self, pos: SeekFrom) -> io::Result<u64> {
        let len = self.data.len() as i64;
        let np = match pos {
            SeekFrom::Start(p) => p as i64,
            SeekFrom::End(o) => len + o,
            SeekFrom::Current(o) => self.pos as i64 + o,
        };
        if np < 0 {
            return Err(io::Error::new(ErrorKind::InvalidInput, "seek before start"));
        }
        self.pos = (np as usize).min(self.data.len());
        Ok(np as u64)
    }
}

/// Sink that fails (sticky) from its `fail_at`-th write call on (1-based; 0 = never).
pub struct Sink {
    pub out: Vec<u8>,
    calls: usize,
    fail_at: usize,
}

impl Sink {
    pub fn new(fail_at: usize) -> Self {
        Sink { out: vec![], calls: 0, fail_at }
    }
}

impl Write for Sink {
    fn write(&mut self, buf: &[u8]) -> io::Result<usize> {
        self.calls += 1;
        OBS.with(|o| o.borrow_mut().sink_calls += 1);
        if self.fail_at != 0 && self.calls >= self.fail_at {
            OBS.with(|o| o.borrow_mut().fault_fired = true);
            return Err(io::Error::new(INJECTED, "injected write error"));
        }
        self.out.extend_from_slice(buf);
        Ok(buf.len())
    }
    fn flush(&mut self) -> io::Result<()> {
        if self.fail_at != 0 && self.calls >= self.fail_at {
            return Err(io::Error::new(INJECTED, "injected write error"));
        }
        Ok(())
    }
}

// ---------------------------------------------------------------- scenarios

#[derive(Clone, Debug)]
pub enum Kind {
    /// LZMA2ReaderMT over `stream`
    R2 { preset: Option<Arc<Vec<u8>>> },
    /// LZIPReaderMT over `stream`
    RL,
    /// LZMA2WriterMT; ops over the input
    W2,
    /// LZMA2WriterMT whose options carry the preset dictionary `preset_text()`
    W2P,
    /// LZIPWriterMT
    WL,
    /// work queue alone: pushers/closer/stealers
    Q { items: u32, stealers: u32, close: bool },
}

#[derive(Clone, Copy, Debug, PartialEq, Eq)]
pub enum WOp {
    Write(usize),
    Empty,
    Flush,
    /// the caller does something else between two calls: a scheduling point at which switching away is free
    /// (models a slow producer / consumer)
    Yield,
}

#[derive(Clone, Debug)]
pub struct Scenario {
    pub name: String,
    pub kind: Kind,
    /// compressed stream (readers) or uncompressed input (writers)
    pub data: Arc<Vec<u8>>,
    pub workers: u32,
    /// read buffer size (readers)
    pub bufsize: usize,
    /// writer operations (writers); the rest of the input is written in one call before finish
    pub wops: Vec<WOp>,
    /// drop the object after this many driver calls instead of running to completion
    /// (readers: read calls; writers: operations; usize::MAX = run to completion)
    pub drop_after: usize,
    /// writers: call finish() (true) or just drop (false) at the end
    pub finish: bool,
    /// inner source/sink fails from this call on (0 = never)
    pub fail_at: usize,
    /// expected single-threaded result (readers: decoded bytes or error; writers: the input)
    pub expect: Arc<Result<Vec<u8>, String>>,
    /// number of independent units in the stream (readers), for C18
    pub units: u64,
    /// the stream is damaged/truncated/unterminated: the caller must see an error
    pub must_err: bool,
    /// the stream is a single-fault mutant of a valid stream (C09 input dimension): the oracle is agreement with the
    /// single-threaded reader on the same bytes; the per-scenario evidence is aggregated per family
    pub mutant: bool,
}

impl Scenario {
    pub fn desc(&self) -> String {
        let k = match &self.kind {
            Kind::R2 { preset } => format!("R2{}", if preset.is_some() { "+preset" } else { "" }),
            Kind::RL => "RL".into(),
            Kind::W2 => "W2".into(),
            Kind::W2P => "W2+preset".into(),
            Kind::WL => "WL".into(),
            Kind::Q { items, stealers, close } => format!("Q{items}i{stealers}s{}", if *close { "c" } else { "" }),
        };
        let ops = self
            .wops
            .iter()
            .map(|o| match o {
                WOp::Write(n) => format!("w{n}"),
                WOp::Empty => "e".into(),
                WOp::Flush => "f".into(),
                WOp::Yield => "y".into(),
            })
            .collect::<Vec<_>>()
            .join(".");
        format!(
            "{k}:{}:w{}:buf{}:ops[{}]:drop{}:fin{}:fail{}",
            self.name,
            self.workers,
            self.bufsize,
            ops,
            if self.drop_after == usize::MAX { "-".to_string() } else { self.drop_after.to_string() },
            self.finish as u8,
            self.fail_at
        )
    }

    pub fn max_workers(&self) -> u32 {
        self.workers.clamp(1, 256)
    }

    /// The body executed under the scheduler (task 0 = the caller of the MT object).
    pub fn body(self: &Arc<Self>) -> Arc<dyn Fn() + Send + Sync> {
        let s = self.clone();
        Arc::new(move || {
            obs_reset();
            match &s.kind {
                Kind::R2 { preset } => {
                    obs_phase("new");
                    let src = Src::new(s.data.clone(), s.fail_at);
                    let r = LZMA2ReaderMT::new(src, DICT, preset.as_ref().map(|p| p.as_slice()), s.workers);
                    run_reader(&s, r, |r| r.chunk_count());
                }
                Kind::RL => {
                    obs_phase("new");
                    let src = Src::new(s.data.clone(), s.fail_at);
                    match LZIPReaderMT::new(src, s.workers) {
                        Ok(r) => run_reader(&s, r, |r| r.member_count() as u64),
                        Err(e) => {
                            obs_call(format!("new:err:{}", errtext(&e)));
                            OBS.with(|o| o.borrow_mut().result = Some(Err(errtext(&e))));
                        }
                    }
                }
                Kind::W2 => {
                    obs_phase("new");
                    let w = LZMA2WriterMT::new(Sink::new(s.fail_at), lzma2_opts(UNIT as u64), s.workers).unwrap();
                    run_writer(&s, w, |w| w.finish().map(|s| s.out));
                }
                Kind::W2P => {
                    obs_phase("new");
                    let mut o = lzma2_opts(UNIT as u64);
                    o.lzma_options.preset_dict = Some(preset_text());
                    let w = LZMA2WriterMT::new(Sink::new(s.fail_at), o, s.workers).unwrap();
                    run_writer(&s, w, |w| w.finish().map(|s| s.out));
                }
                Kind::WL => {
                    obs_phase("new");
                    let w = LZIPWriterMT::new(Sink::new(s.fail_at), lzip_opts(UNIT as u64), s.workers).unwrap();
                    run_writer(&s, w, |w| w.finish().map(|s| s.out));
                }
                Kind::Q { items, stealers, close } => run_queue(*items, *stealers, *close),
            }
            obs_phase("returned");
        })
    }
}

fn run_reader<R: Read>(s: &Scenario, mut r: R, count: impl Fn(&R) -> u64) {
    let mut out = vec![];
    let mut buf = vec![0u8; s.bufsize];
    let mut calls = 0usize;
    let mut result: Option<Result<Vec<u8>, String>> = None;
    let slow = s.name.ends_with("/slow-consumer");
    while calls < s.drop_after {
        calls += 1;
        if slow && calls > 1 {
            // the caller does something else between two reads (free scheduling point)
            shuttle::thread::yield_now();
        }
        obs_phase(format!("read#{calls}"));
        match r.read(&mut buf) {
            Ok(0) => {
                obs_call("ok:0".into());
                result = Some(Ok(std::mem::take(&mut out)));
                break;
            }
            Ok(n) => {
                obs_call(format!("ok:{n}"));
                out.extend_from_slice(&buf[..n]);
            }
            Err(e) => {
                obs_call(format!("err:{}", errtext(&e)));
                result = Some(Err(errtext(&e)));
                break;
            }
        }
        if out.len() > (1 << 22) {
            result = Some(Err("verif: endless output".into()));
            break;
        }
    }
    // A caller may call read again after an error or after the end: those calls must return too
    // (whatever they return), and must not hand out more data after the end.
    if result.is_some() && calls < s.drop_after {
        for k in 1..=2 {
            obs_phase(format!("again#{k}"));
            match r.read(&mut buf) {
                Ok(0) => obs_call("again:ok:0".into()),
                Ok(n) => {
                    obs_call(format!("again:ok:{n}"));
                    if matches!(result, Some(Ok(_))) {
                        result = Some(Err(format!("verif: read returned {n} more bytes after it had returned 0")));
                    }
                }
                Err(e) => obs_call(format!("again:err:{}", errtext(&e))),
            }
        }
    }
    let units = count(&r);
    OBS.with(|o| {
        let mut o = o.borrow_mut();
        o.result = result;
        o.unit_count = Some(units);
    });
    obs_phase("drop");
    drop(r);
}

fn run_writer<W: Write>(s: &Scenario, mut w: W, finish: impl FnOnce(W) -> io::Result<Vec<u8>>) {
    let input = &s.data;
    let mut off = 0usize;
    let mut calls = 0usize;
    let mut failed: Option<String> = None;
    let mut ops: Vec<WOp> = s.wops.clone();
    let planned: usize = ops.iter().map(|o| if let WOp::Write(n) = o { *n } else { 0 }).sum();
    if planned < input.len() {
        ops.push(WOp::Write(input.len() - planned));
    }
    for op in ops {
        if calls >= s.drop_after || failed.is_some() {
            break;
        }
        calls += 1;
        let r = match op {
            WOp::Write(n) => {
                obs_phase(format!("write#{calls}"));
                let r = w.write_all(&input[off..off + n]);
                off += n;
                r
            }
            WOp::Empty => {
                obs_phase(format!("empty#{calls}"));
                w.write(&[]).map(|_| ())
            }
            WOp::Flush => {
                obs_phase(format!("flush#{calls}"));
                w.flush()
            }
            WOp::Yield => {
                obs_phase(format!("yield#{calls}"));
                shuttle::thread::yield_now();
                Ok(())
            }
        };
        match r {
            Ok(()) => obs_call("ok".into()),
            Err(e) => {
                obs_call(format!("err:{}", errtext(&e)));
                failed = Some(errtext(&e));
            }
        }
    }
    if calls >= s.drop_after || !s.finish {
        OBS.with(|o| o.borrow_mut().result = failed.map(Err));
        obs_phase("drop");
        drop(w);
        return;
    }
    if let Some(e) = failed {
        OBS.with(|o| o.borrow_mut().result = Some(Err(e)));
        obs_phase("drop");
        drop(w);
        return;
    }
    obs_phase("finish");
    let r = finish(w);
    OBS.with(|o| {
        o.borrow_mut().result = Some(match r {
            Ok(bytes) => Ok(bytes),
            Err(e) => Err(errtext(&e)),
        })
    });
}

/// Queue-only scenario: task 0 pushes `items` items (and closes if `close`), `stealers` tasks steal
/// until the queue reports closed-and-empty. Observed: every stolen item, per stealer in order.
fn run_queue(items: u32, stealers: u32, close: bool) {
    use lzma_rust2::verif::rt::thread;
    let q = Arc::new(Queue::<u32>::new());
    let got: Arc<std::sync::Mutex<Vec<(u32, u32)>>> = Arc::new(std::sync::Mutex::new(vec![]));
    let mut hs = vec![];
    for t in 0..stealers {
        let h = q.worker();
        let got = got.clone();
        hs.push(thread::spawn(move || {
            while let Some(x) = h.steal() {
                got.lock().unwrap().push((t, x));
            }
        }));
    }
    let mut pushed_ok = 0;
    for i in 0..items {
        obs_phase(format!("push#{i}"));
        if q.push(i) {
            pushed_ok += 1;
        }
    }
    if close {
        obs_phase("close");
        q.close();
        obs_phase("join");
        for h in hs {
            let _ = h.join();
        }
        let g = got.lock().unwrap();
        let mut enc = vec![];
        for (t, x) in g.iter() {
            enc.push(*t as u8);
            enc.push(*x as u8);
        }
        OBS.with(|o| {
            let mut o = o.borrow_mut();
            o.result = Some(Ok(enc));
            o.unit_count = Some(pushed_ok);
        });
    } else {
        // never closed: stealers must block for ever => the runtime must report them
        OBS.with(|o| o.borrow_mut().result = Some(Ok(vec![])));
    }
}

// ---------------------------------------------------------------- reference for the writers

/// Harness-side reference for LZMA2WriterMT: encode each UNIT-sized unit with a fresh
/// single-threaded writer (write_all + flush), concatenate, append the terminator.
pub fn ref_w2(input: &[u8], cuts: &[usize]) -> Vec<u8> {
    let mut out = vec![];
    for u in units_of(input, cuts) {
        let mut buf = Vec::new();
        {
            let mut o = lzma2_opts(UNIT as u64);
            o.lzma_options.preset_dict = None;
            let mut w = LZMA2Writer::new(&mut buf, o);
            w.write_all(u).unwrap();
            w.flush().unwrap();
        }
        out.extend_from_slice(&buf);
    }
    out.push(0);
    out
}

pub fn ref_wl(input: &[u8], cuts: &[usize]) -> Vec<u8> {
    let mut out = vec![];
    let us = units_of(input, cuts);
    if us.is_empty() {
        let w = LZIPWriter::new(Vec::new(), lzip_opts(1 << 30));
        return w.finish().unwrap();
    }
    for u in us {
        let mut w = LZIPWriter::new(Vec::new(), lzip_opts(1 << 30));
        w.write_all(u).unwrap();
        out.extend_from_slice(&w.finish().unwrap());
    }
    out
}

/// The units an MT writer has to cut: UNIT-sized pieces, except that a flush at input offset
/// `c` (listed in `cuts`) closes the current unit early.
pub fn units_of<'a>(input: &'a [u8], cuts: &[usize]) -> Vec<&'a [u8]> {
    let mut v = vec![];
    let mut start = 0;
    let mut bounds: Vec<usize> = cuts.to_vec();
    bounds.push(input.len());
    for b in bounds {
        while start < b {
            let end = (start + UNIT).min(b);
            v.push(&input[start..end]);
            start = end;
        }
    }
    v
}

pub fn hash(b: &[u8]) -> u64 {
    fnv(b)
}

pub fn cursor_decode_mt_lzma2(stream: Vec<u8>, workers: u32) -> Result<Vec<u8>, String> {
    let mut r = LZMA2ReaderMT::new(Cursor::new(stream), DICT, None, workers);
    let mut out = vec![];
    match r.read_to_end(&mut out) {
        Ok(_) => Ok(out),
        Err(e) => Err(errtext(&e)),
    }
}
