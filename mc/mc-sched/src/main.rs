fn main() {}
