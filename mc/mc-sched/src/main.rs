//! mc-sched: exhaustive preemption-bounded exploration of the multi-threaded readers/writers.

mod menu;
mod scen;
mod sched;

use lzma_rust2::verif::{census, cov};
use mc_core::run::Cli;
use mc_core::{Report, Violation};
use scen::{Kind, Obs, Scenario};
use sched::{EndKind, ExecInfo};
use serde_json::json;
use std::collections::{BTreeMap, BTreeSet};
use std::sync::{Arc, Mutex};
use std::time::Instant;

#[global_allocator]
static ALLOC: mc_core::alloc::VerifAlloc = mc_core::alloc::VerifAlloc;

fn main() {
    mc_core::run::tune_malloc();
    let cli = Cli::parse();
    mc_core::run::install_panic_hook();
    if std::env::var_os("VERIF_ASAN").is_none() {
        mc_core::alloc::set_default_poison(0xA5);
    }
    let rep = Report::new(&cli.check);
    let t0 = Instant::now();
    match cli.check.as_str() {
        "C08" | "C09" | "C10" | "C13" | "C18" => run(&cli, &rep),
        other => {
            eprintln!("mc-sched: unknown check {other}");
            std::process::exit(2);
        }
    }
    let wall = t0.elapsed().as_secs_f64();
    let js = rep.to_json(&cli.tier, cli.seed, wall);
    let text = serde_json::to_string_pretty(&js).unwrap();
    match &cli.out {
        Some(p) => std::fs::write(p, text).expect("write --out"),
        None => println!("{text}"),
    }
}

/// Per-scenario accumulation across its executions.
#[derive(Default)]
struct Acc {
    outcomes: BTreeSet<String>,
    call_patterns: BTreeSet<String>,
    out_of_order_execs: u64,
    backpressure_execs: u64,
    peaks: BTreeSet<u32>,
    spawned: BTreeSet<u32>,
    completed: u64,
    failed: u64,
    /// writer outputs already validated (hash -> verdicts), so that identical outputs of
    /// different schedules are decoded/compared once
    validated: BTreeMap<u64, Vec<(String, String, String)>>,
    reference: Option<Vec<u8>>,
}

fn phase_class(p: &str) -> String {
    let mut s = String::new();
    for c in p.chars() {
        if c.is_ascii_digit() || c == '#' {
            continue;
        }
        s.push(c);
    }
    s
}

#[allow(clippy::too_many_arguments)]
fn judge(prop: &str, s: &Scenario, obs: &Obs, end: &EndKind, cens: (u32, u32, u32), cv: &[u64], acc: &mut Acc) -> Vec<(String, String, String)> {
    let mut v: Vec<(String, String, String)> = vec![];
    let reader = matches!(s.kind, Kind::R2 { .. } | Kind::RL);
    let writer = matches!(s.kind, Kind::W2 | Kind::W2P | Kind::WL);
    match end {
        EndKind::Failed(p) => {
            acc.failed += 1;
            if p.msg.starts_with("deadlock!") {
                let n_blocked = p.msg.matches("(task ").count();
                if obs.phase == "returned" {
                    v.push((
                        "leak".into(),
                        "worker threads can never finish after the caller returned".into(),
                        format!("blocked tasks: {n_blocked}; {}", p.msg.chars().take(300).collect::<String>()),
                    ));
                } else {
                    v.push((
                        "deadlock".into(),
                        format!("caller blocked for ever in {}", phase_class(&obs.phase)),
                        format!("phase={} calls={:?} {}", obs.phase, obs.calls, p.msg.chars().take(300).collect::<String>()),
                    ));
                }
            } else if p.msg.starts_with("exceeded max_steps") {
                v.push(("livelock".into(), format!("step horizon exceeded in {}", phase_class(&obs.phase)), p.msg.clone()));
            } else {
                v.push(("panic".into(), p.site(), format!("{}:{} {} (phase {})", p.file, p.line, p.msg, obs.phase)));
            }
            return v;
        }
        EndKind::Completed => {}
    }
    acc.completed += 1;
    let (spawned, live, peak) = cens;
    acc.peaks.insert(peak);
    acc.spawned.insert(spawned);
    if cv[cov::Counter::MtOutOfOrder as usize] > 0 {
        acc.out_of_order_execs += 1;
    }
    if cv[cov::Counter::MtBackpressureWait as usize] > 0 {
        acc.backpressure_execs += 1;
    }
    acc.call_patterns.insert(obs.calls.join(","));
    let outcome = match &obs.result {
        None => "none".to_string(),
        Some(Ok(b)) => format!("ok:{}:{:016x}", b.len(), scen::hash(b)),
        Some(Err(e)) => format!("err:{e}"),
    };
    acc.outcomes.insert(outcome.clone());

    // --- every property: thread census
    if live != 0 {
        v.push(("leak".into(), "census: live worker threads after the execution ended".into(), format!("live={live}")));
    }
    if peak > s.max_workers() {
        v.push((
            "too-many-workers".into(),
            "more live worker threads than the requested maximum".into(),
            format!("peak={peak} max={} spawned={spawned}", s.max_workers()),
        ));
    }
    let complete = s.drop_after == usize::MAX && (reader || (writer && s.finish));
    if let Kind::Q { close, .. } = s.kind {
        if close {
            // every pushed item stolen exactly once, FIFO per stealer
            if let Some(Ok(enc)) = &obs.result {
                let mut seen = BTreeSet::new();
                let mut last: BTreeMap<u8, i32> = BTreeMap::new();
                for ch in enc.chunks(2) {
                    if !seen.insert(ch[1]) {
                        v.push(("queue-duplicate".into(), "item stolen twice".into(), format!("{enc:?}")));
                    }
                    let l = last.entry(ch[0]).or_insert(-1);
                    if (ch[1] as i32) < *l {
                        v.push(("queue-order".into(), "stealer saw items out of FIFO order".into(), format!("{enc:?}")));
                    }
                    *l = ch[1] as i32;
                }
                if seen.len() as u64 != obs.unit_count.unwrap_or(0) {
                    v.push((
                        "queue-lost".into(),
                        "an item pushed before close was never delivered".into(),
                        format!("delivered={} pushed_ok={:?}", seen.len(), obs.unit_count),
                    ));
                }
            }
        }
        return v;
    }
    if !complete {
        return v;
    }

    let faulty = s.fail_at != 0 && obs.fault_fired;
    match (&obs.result, s.expect.as_ref()) {
        (None, _) => v.push(("no-result".into(), "driver finished without a result".into(), format!("{:?}", obs.calls))),
        (Some(Ok(bytes)), expect) => {
            if faulty {
                v.push((
                    "no-error".into(),
                    "inner I/O error was swallowed: the caller saw success".into(),
                    format!("calls={:?}", obs.calls),
                ));
            } else if s.must_err {
                v.push((
                    "no-error".into(),
                    "damaged / truncated / unterminated input reported as success".into(),
                    format!("got {} bytes; calls={:?}", bytes.len(), obs.calls),
                ));
            } else if reader {
                match expect {
                    Ok(want) => {
                        if bytes != want {
                            v.push((
                                "wrong-bytes".into(),
                                "MT reader output differs from the single-threaded reader".into(),
                                format!("got len={} want len={} first_diff={:?}", bytes.len(), want.len(), bytes.iter().zip(want.iter()).position(|(a, b)| a != b)),
                            ));
                        }
                    }
                    Err(e) => v.push((
                        "no-error".into(),
                        "single-threaded reader rejects the stream but the MT reader reports success".into(),
                        format!("st error {e}; mt returned {} bytes", bytes.len()),
                    )),
                }
            } else if writer {
                let h = scen::hash(bytes) ^ (bytes.len() as u64).rotate_left(32);
                if let Some(prev) = acc.validated.get(&h) {
                    v.extend(prev.iter().cloned());
                } else {
                    let mut w: Vec<(String, String, String)> = vec![];
                    // decode with the single-threaded reader
                    let dec = match s.kind {
                        Kind::W2 => scen::st_decode_lzma2(bytes, None),
                        // every unit of the MT writer starts with a dictionary reset, so the preset dictionary must not
                        // influence the stream: a reader that has it and one that does not must both get the input
                        Kind::W2P => match (scen::st_decode_lzma2(bytes, Some(&scen::preset_text())), scen::st_decode_lzma2(bytes, None)) {
                            (Ok(a), Ok(b)) if a == b => Ok(a),
                            (Ok(_), Ok(_)) => Err("decodes differently with and without the preset dictionary".to_string()),
                            (Err(e), _) | (_, Err(e)) => Err(e),
                        },
                        _ => scen::st_decode_lzip(bytes),
                    };
                    match dec {
                        Ok(d) if &d == s.data.as_ref() => {}
                        Ok(d) => w.push((
                            "wrong-bytes".into(),
                            "MT writer output decodes to different bytes".into(),
                            format!("decoded len={} input len={}", d.len(), s.data.len()),
                        )),
                        Err(e) => w.push(("undecodable".into(), format!("single-threaded reader rejects MT writer output: {e}"), String::new())),
                    }
                    if prop == "C13" || prop == "C08" || prop == "C18" {
                        // byte-identical to the harness-side reference (per-unit single-threaded encodings)
                        if acc.reference.is_none() {
                            let cuts = flush_cuts(s);
                            acc.reference = Some(match s.kind {
                                Kind::W2 | Kind::W2P => scen::ref_w2(&s.data, &cuts),
                                _ => scen::ref_wl(&s.data, &cuts),
                            });
                        }
                        let reference = acc.reference.as_ref().unwrap();
                        if bytes != reference {
                            w.push((
                                if prop == "C18" { "unit-size" } else { "nondeterministic-output" }.into(),
                                "MT writer output differs from the concatenation of per-unit single-threaded encodings".into(),
                                format!("got len={} fnv={:016x}; reference len={} fnv={:016x}", bytes.len(), scen::hash(bytes), reference.len(), scen::hash(reference)),
                            ));
                        }
                    }
                    v.extend(w.iter().cloned());
                    acc.validated.insert(h, w);
                }
            }
            // C18: unit counts reported by the readers
            if reader && !s.must_err && !faulty {
                if let (Some(n), Ok(want)) = (obs.unit_count, expect) {
                    if !want.is_empty() && n != s.units {
                        v.push((
                            "unit-count".into(),
                            "chunk/member count differs from the number of independent units in the stream".into(),
                            format!("reported={n} walked={}", s.units),
                        ));
                    }
                }
            }
        }
        (Some(Err(e)), expect) => {
            if faulty {
                if e != &format!("{:?}", scen::INJECTED) {
                    v.push((
                        "error-kind-lost".into(),
                        "the inner error's kind was not passed to the caller".into(),
                        format!("caller saw {e}"),
                    ));
                }
            } else if s.must_err || expect.is_err() {
                // fine: an error was required
            } else if s.mutant && matches!(s.kind, Kind::RL) {
                // A damaged LZIP file that the forward-reading single-threaded reader accepts under the format's
                // trailing-garbage rule (or as an empty archive) may be rejected by the MT reader, which locates the
                // members from the trailers backwards; an error is never the bad outcome C09 names.
            } else {
                v.push((
                    "spurious-error".into(),
                    format!("valid input/ops but the caller saw an error: {e}"),
                    format!("calls={:?}", obs.calls),
                ));
            }
        }
    }
    v
}

/// Input offsets at which the scenario's ops flush (a flush closes the current unit early).
fn flush_cuts(s: &Scenario) -> Vec<usize> {
    let mut off = 0;
    let mut cuts = vec![];
    for op in &s.wops {
        match op {
            scen::WOp::Write(n) => off += n,
            scen::WOp::Flush => {
                if off > 0 && cuts.last() != Some(&off) {
                    cuts.push(off)
                }
            }
            scen::WOp::Empty | scen::WOp::Yield => {}
        }
    }
    cuts
}

fn run(cli: &Cli, rep: &Report) {
    let prop = cli.check.clone();
    let thorough = cli.thorough();
    let items = menu::menu(&prop, thorough);
    rep.rule(
        "E-sched: for every scenario of the menu (closed driver over the real MT reader/writer/queue) every thread \
         interleaving with at most k preemptions is executed on the real code under a controlled scheduler \
         (iterative context bounding; k per scenario in `domains`); an execution is non-trivial when at least two \
         tasks were enabled at some scheduling point; distinct = distinct (scenario, schedule) pairs",
    );
    rep.assumption("all atomics are executed sequentially consistent by the runtime; Acquire/Release weakness is not explored");
    rep.assumption("scheduling points are the synchronisation operations of std::sync / std::thread / mpsc as modelled by shuttle 0.9.3; the five MT source files contain no unsafe code (checked below)");
    rep.assumption("bounds: <= 3 workers, <= 6 work units, preemption bound per scenario as listed; nothing beyond is covered");
    check_no_unsafe(rep);

    let rep_arc: &Report = rep;
    let total = Mutex::new(sched::Stats::default());
    let outcomes_all = Mutex::new(BTreeMap::<String, serde_json::Value>::new());
    let n = items.len();
    mc_core::run::par_for_with(
        n,
        1,
        |_| (),
        |_, i| {
            let (scn, bound) = &items[i];
            let sdesc = scn.desc();
            // --only: "<scenario desc>|<schedule>"
            let mut forced = None;
            if let Some(only) = &cli.only {
                let mine: Vec<&String> = only.iter().filter(|o| o.starts_with(&format!("{prop}|{sdesc}|"))).collect();
                if mine.is_empty() {
                    return;
                }
                let sched_s = mine[0].rsplit('|').next().unwrap_or("-");
                forced = sched::parse_schedule(sched_s);
                if forced.is_none() {
                    rep_arc.machinery_error(format!("cannot parse schedule in {}", mine[0]));
                    return;
                }
            }
            let acc = Arc::new(Mutex::new(Acc::default()));
            let viols: Arc<Mutex<Vec<Violation>>> = Arc::new(Mutex::new(vec![]));
            let nontrivial: Arc<Mutex<Vec<u64>>> = Arc::new(Mutex::new(vec![]));
            let scn2 = scn.clone();
            let acc2 = acc.clone();
            let viols2 = viols.clone();
            let nt2 = nontrivial.clone();
            let prop2 = prop.clone();
            let sdesc2 = sdesc.clone();
            let on_end = Arc::new(move |info: &ExecInfo, end: &EndKind| {
                let obs = scen::obs_take();
                let cens = census::snapshot();
                let cv = cov::take();
                let mut acc = acc2.lock().unwrap();
                let found = judge(&prop2, &scn2, &obs, end, cens, &cv, &mut acc);
                let case = format!("{prop2}|{sdesc2}|{}", sched::schedule_desc(&info.schedule));
                if info.schedule.iter().any(|t| *t != 0) {
                    nt2.lock().unwrap().push(mc_core::report::fnv(case.as_bytes()));
                }
                for (kind, site, detail) in found {
                    let mut vs = viols2.lock().unwrap();
                    if vs.len() < 64 {
                        vs.push(
                            Violation::new(&kind, site, case.clone())
                                .attr("scenario", scenario_class(&scn2))
                                .attr("fault", fault_class(&scn2))
                                .detail(format!("{detail} | preemptions={} steps={}", info.preemptions, info.schedule.len())),
                        );
                    }
                }
            });
            // keep going after failures, but not for ever: every failing schedule leaks its coroutines
            let max_execs = if thorough { 20_000_000 } else { 3_000_000 };
            let scope_desc = || format!("{}|{}|(schedule unknown: the process aborted)", prop, scn.desc());
            let _scope = mc_core::run::case_scope(&scope_desc);
            let st = sched::explore(*bound, max_execs, forced, scn.body(), on_end);
            let acc = acc.lock().unwrap();
            for v in viols.lock().unwrap().drain(..) {
                rep_arc.violation(v);
            }
            rep_arc.nontrivial_many(&nontrivial.lock().unwrap());
            if st.divergences > 0 {
                rep_arc.machinery_error(format!("{sdesc}: {} executions diverged while replaying a schedule prefix (uncontrolled nondeterminism)", st.divergences));
            }
            if st.capped {
                rep_arc.add("capped_scenarios", 1);
                rep_arc.note(format!("{sdesc}: execution cap hit; bound {bound} NOT completed"));
            }
            rep_arc.add_many(&[
                ("evaluations", st.executions),
                ("traces_validated_against_impl", st.executions),
                ("states", st.states),
                ("transitions", st.transitions),
                ("executions_failed", st.failed),
                ("executions_with_out_of_order_results", acc.out_of_order_execs),
                ("executions_in_backpressure_wait", acc.backpressure_execs),
                ("scenarios", 1),
            ]);
            rep_arc.add(&format!("backpressure_wait.{}", scenario_class(scn)), acc.backpressure_execs);
            rep_arc.max("max.schedule_depth", st.max_depth as u64);
            rep_arc.max("max.enabled_tasks", st.max_enabled as u64);
            rep_arc.max("max.peak_workers", acc.peaks.iter().max().copied().unwrap_or(0) as u64);
            rep_arc.max("max.distinct_outcomes_in_one_scenario", acc.outcomes.len() as u64);
            total.lock().unwrap().merge(&st);
            if scn.mutant {
                // single-fault mutants: one aggregated evidence entry per family instead of one per mutant
                let fam = scn.name.split('/').take(2).collect::<Vec<_>>().join("/");
                let class = match scn.expect.as_ref() {
                    Ok(b) if b.is_empty() => "st_ok_empty",
                    Ok(_) => "st_ok",
                    Err(_) => "st_err",
                };
                rep_arc.add_many(&[("mutant_scenarios", 1), ("mutant_executions", st.executions)]);
                rep_arc.add(&format!("mutants.{fam}.{class}"), 1);
                rep_arc.add(&format!("mutants.{fam}.executions"), st.executions);
                if acc.outcomes.len() > 1 {
                    rep_arc.add(&format!("mutants.{fam}.schedule_dependent_outcome"), 1);
                }
            } else {
                outcomes_all.lock().unwrap().insert(
                    sdesc.clone(),
                    json!({"bound": bound, "executions": st.executions, "by_preemptions": st.by_preemptions, "failed": st.failed,
                           "max_depth": st.max_depth, "distinct_outcomes": acc.outcomes.len(), "distinct_call_patterns": acc.call_patterns.len(),
                           "out_of_order_execs": acc.out_of_order_execs, "backpressure_execs": acc.backpressure_execs, "peaks": acc.peaks, "spawned": acc.spawned}),
                );
            }
            // non-vacuity per scenario: schedules must actually differ
            if cli.only.is_none() && st.executions <= 1 && !matches!(scn.kind, Kind::Q { stealers: 0, .. }) && *bound > 0 {
                rep_arc.note(format!("{sdesc}: only {} execution(s) - no scheduling freedom", st.executions));
            }
            if rep_arc.n_samples() < 8 && i % (n / 8 + 1) == 0 {
                rep_arc.sample(json!({"scenario": sdesc, "bound": bound, "executions": st.executions,
                    "outcomes": acc.outcomes.iter().take(4).collect::<Vec<_>>(), "call_patterns": acc.call_patterns.len()}));
            }
        },
        |_| (),
    );
    let t = total.lock().unwrap();
    rep.extra("by_preemptions", json!(t.by_preemptions));
    rep.extra("scenarios", json!(*outcomes_all.lock().unwrap()));
    if cli.only.is_none() {
        if t.executions < 100 {
            rep.machinery_error(format!("vacuous: only {} executions explored", t.executions));
        }
        // every MT object stops dispatching while four units are queued; a menu in which no execution ever parks the
        // caller in that wait leaves it unexplored (this is how seeded change H10 was missed at first)
        let classes: &[&str] = match prop.as_str() {
            "C08" | "C09" | "C10" => &["lzma2-reader-mt", "lzip-reader-mt", "lzma2-writer-mt", "lzip-writer-mt"],
            "C13" => &["lzma2-writer-mt", "lzip-writer-mt"],
            _ => &[],
        };
        for c in classes {
            if rep.get(&format!("backpressure_wait.{c}")) == 0 {
                rep.machinery_error(format!("vacuous: no execution of a {c} scenario reached the back-pressure wait"));
            }
        }
        if matches!(prop.as_str(), "C08" | "C13") && rep.get("executions_with_out_of_order_results") == 0 {
            rep.machinery_error("vacuous: no execution delivered results out of order");
        }
    }
}

fn scenario_class(s: &Scenario) -> String {
    match &s.kind {
        Kind::R2 { .. } => "lzma2-reader-mt",
        Kind::RL => "lzip-reader-mt",
        Kind::W2 | Kind::W2P => "lzma2-writer-mt",
        Kind::WL => "lzip-writer-mt",
        Kind::Q { .. } => "work-queue",
    }
    .to_string()
}

fn fault_class(s: &Scenario) -> String {
    if s.fail_at != 0 {
        "inner-io-error".into()
    } else if s.must_err {
        format!("bad-input:{}", s.name.split('/').next().unwrap_or(""))
    } else if s.drop_after != usize::MAX || (!s.finish && matches!(s.kind, Kind::W2 | Kind::W2P | Kind::WL)) {
        "early-drop".into()
    } else {
        "none".into()
    }
}

fn check_no_unsafe(rep: &Report) {
    let repo = mc_core::gen::repo_dir();
    let mut bad = vec![];
    for f in ["src/work_queue.rs", "src/lzma2_reader_mt.rs", "src/enc/lzma2_writer_mt.rs", "src/lzip/reader_mt.rs", "src/lzip/writer_mt.rs"] {
        match std::fs::read_to_string(format!("{repo}/{f}")) {
            Ok(t) => {
                if t.contains("unsafe") {
                    bad.push(f);
                }
            }
            Err(_) => rep.note(format!("could not read {f} for the unsafe scan")),
        }
    }
    if !bad.is_empty() {
        rep.assumption(format!("WARNING: unsafe code appeared in {bad:?}; data races below scheduling-point granularity are NOT covered by this check"));
    }
}
