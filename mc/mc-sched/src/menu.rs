//! Scenario menus per property (DESIGN §2).

use crate::scen::{self, Kind, Scenario, WOp, UNIT};
use std::sync::Arc;

fn reader(name: &str, kind: Kind, stream: Vec<u8>, preset: Option<&[u8]>, workers: u32, bufsize: usize) -> Scenario {
    let expect = match &kind {
        Kind::R2 { .. } => scen::st_decode_lzma2(&stream, preset),
        _ => scen::st_decode_lzip(&stream),
    };
    let units = match &kind {
        Kind::R2 { .. } => scen::count_units(&stream),
        _ => scen::count_members(&stream),
    };
    Scenario {
        name: name.to_string(),
        kind,
        data: Arc::new(stream),
        workers,
        bufsize,
        wops: vec![],
        drop_after: usize::MAX,
        finish: true,
        fail_at: 0,
        must_err: expect.is_err(),
        mutant: false,
        expect: Arc::new(expect),
        units,
    }
}

fn writer(name: &str, kind: Kind, input: Vec<u8>, wops: Vec<WOp>, workers: u32) -> Scenario {
    Scenario {
        name: name.to_string(),
        kind,
        expect: Arc::new(Ok(input.clone())),
        data: Arc::new(input),
        workers,
        bufsize: 0,
        wops,
        drop_after: usize::MAX,
        finish: true,
        fail_at: 0,
        units: 0,
        must_err: false,
        mutant: false,
    }
}

struct Streams {
    /// (name, stream, preset, unit count class: small means <= 2 units)
    r2: Vec<(String, Vec<u8>, Option<Vec<u8>>, usize)>,
    rl: Vec<(String, Vec<u8>, usize)>,
}

fn streams(thorough: bool) -> Streams {
    let mut r2 = vec![];
    // 7 units: more than the reader queues ahead, so that its back-pressure wait is reached on valid input too
    for k in [0usize, 1, 2, 3, 5, 7] {
        r2.push((format!("unc{k}"), scen::stream_unc_units(k), None, k));
    }
    for k in [1usize, 2] {
        r2.push((format!("lz{k}+5"), scen::stream_lzma2(k, 5, 0, false, None).0, None, k + 1));
    }
    r2.push(("lzdep2".into(), scen::stream_lzma2(2, 5, 1500, false, None).0, None, 3));
    r2.push(("raw2".into(), scen::stream_lzma2(2, 0, 0, true, None).0, None, 2));
    let preset = scen::text_input(300, 5);
    r2.push(("preset1+5".into(), scen::stream_lzma2(1, 5, 0, false, Some(&preset)).0, Some(preset.clone()), 2));
    let mut t = scen::stream_unc_units(2);
    t.extend_from_slice(&[0xFF; 7]);
    r2.push(("unc2+trail7".into(), t, None, 2));
    let mut t = scen::stream_lzma2(1, 5, 0, false, None).0;
    t.push(0x00);
    r2.push(("lz1+5+trail1".into(), t, None, 2));
    // chunk-kind sequences inside units (R = incompressible segment, T = text): uncompressed chunk first and an LZMA chunk with
    // new properties after it (01.c0), state resets after uncompressed chunks inside a unit (e0.02.a0), both in two units
    let rt = vec![(true, 100), (false, UNIT - 100)];
    let trt = vec![(false, 1000), (true, 100), (false, UNIT - 1100)];
    let rtrt = vec![(true, 100), (false, 500), (true, 100), (false, UNIT - 700)];
    for (name, pat, units) in [("mixRT", vec![rt.clone()], 1usize), ("mixRT-TRT", vec![rt.clone(), trt.clone()], 2), ("mixRTRT", vec![rtrt.clone()], 1), ("mixTRT-RT", vec![trt.clone(), rt.clone()], 2)] {
        let st = scen::stream_lzma2_pattern(&pat, None).0;
        r2.push((format!("{name}[{}]", scen::controls(&st)), st, None, units));
    }
    {
        let st = scen::stream_lzma2_pattern(&[rt.clone()], Some(&preset)).0;
        r2.push((format!("preset-mixRT[{}]", scen::controls(&st)), st, Some(preset.clone()), 1));
    }
    if thorough {
        r2.push(("lz3+5".into(), scen::stream_lzma2(3, 5, 0, false, None).0, None, 4));
        r2.push(("lz5".into(), scen::stream_lzma2(5, 0, 0, false, None).0, None, 5));
        r2.push(("unc6".into(), scen::stream_unc_units(6), None, 6));
    }
    let mut rl = vec![];
    for (name, members) in [("m1", vec![100usize]), ("m2", vec![100, 3000]), ("m3e", vec![100, 0, 5]), ("m5", vec![10, 20, 0, 30, 40]), ("m7", vec![10, 20, 0, 30, 40, 5, 60])] {
        rl.push((name.to_string(), scen::stream_lzip(&members).0, members.len()));
    }
    Streams { r2, rl }
}

fn bound_for(units: usize, thorough: bool) -> u32 {
    match (units, thorough) {
        (0..=2, false) => 2,
        (_, false) => 1,
        (0..=2, true) => 3,
        (3, true) => 3,
        (_, true) => 2,
    }
}

fn writer_inputs() -> Vec<(String, Vec<u8>, usize)> {
    let mut v = vec![];
    // 6 units + 5 bytes: more units than the writers queue ahead (their send_work_unit waits while four are queued)
    // 10 units: more finished results can pile up behind one slow unit than any bound derived from worker count + queue depth
    for n in [0usize, 1, UNIT, UNIT + 1, 2 * UNIT, 3 * UNIT + 5, 6 * UNIT + 5, 10 * UNIT] {
        v.push((format!("in{n}"), scen::text_input(n, 17), n.div_ceil(UNIT)));
    }
    v
}

fn valid_readers(thorough: bool) -> Vec<(Scenario, u32)> {
    let st = streams(thorough);
    let mut v = vec![];
    for (name, stream, preset, units) in &st.r2 {
        for workers in [1u32, 2, 3] {
            let bufs: &[usize] = if name == "unc2" { &[4096, 1, 3] } else { &[4096] };
            for &b in bufs {
                let s = reader(name, Kind::R2 { preset: preset.clone().map(Arc::new) }, stream.clone(), preset.as_deref(), workers, b);
                v.push((s, bound_for(*units, thorough)));
            }
        }
    }
    // slow consumer: the caller does something else between two reads
    for workers in [2u32, 3] {
        let s = reader("unc9/slow-consumer", Kind::R2 { preset: None }, scen::stream_unc_units(9), None, workers, 4096);
        v.push((s, 1));
        let s = reader("m7/slow-consumer", Kind::RL, scen::stream_lzip(&[10, 20, 0, 30, 40, 5, 60]).0, None, workers, 4096);
        v.push((s, 1));
    }
    // worker limits 0 and u32::MAX
    for w in [0u32, u32::MAX] {
        let s = reader("unc3", Kind::R2 { preset: None }, scen::stream_unc_units(3), None, w, 4096);
        v.push((s, if thorough { 2 } else { 1 }));
    }
    for w in [0u32, u32::MAX] {
        let s = reader("m2", Kind::RL, scen::stream_lzip(&[100, 3000]).0, None, w, 4096);
        v.push((s, if thorough { 2 } else { 1 }));
    }
    for (name, stream, members) in &st.rl {
        for workers in [1u32, 2, 3] {
            let s = reader(name, Kind::RL, stream.clone(), None, workers, 4096);
            v.push((s, bound_for(*members, thorough)));
        }
    }
    v
}

fn valid_writers(thorough: bool) -> Vec<(Scenario, u32)> {
    let mut v = vec![];
    for (name, input, units) in writer_inputs() {
        for kind in [Kind::W2, Kind::WL] {
            for workers in [1u32, 2, 3] {
                // flush() before anything was written (and as the only call on an empty input), then the data
                let mut opsets: Vec<(String, Vec<WOp>)> = vec![("one".into(), vec![]), ("flushfirst".into(), vec![WOp::Flush])];
                if input.len() > 100 {
                    opsets.push(("split100".into(), vec![WOp::Write(100)]));
                    opsets.push(("flush100".into(), vec![WOp::Write(100), WOp::Flush]));
                    opsets.push(("empty".into(), vec![WOp::Empty, WOp::Write(100), WOp::Empty]));
                }
                if input.len() > UNIT {
                    opsets.push(("splitunit".into(), vec![WOp::Write(UNIT)]));
                    opsets.push(("flushunit".into(), vec![WOp::Write(UNIT), WOp::Flush]));
                }
                if !thorough && workers == 3 {
                    opsets.truncate(1);
                }
                if units > 4 {
                    opsets.retain(|(n, _)| n == "one" || n == "splitunit" || (thorough && n == "flushunit"));
                }
                for (on, ops) in opsets {
                    let s = writer(&format!("{name}/{on}"), kind.clone(), input.clone(), ops, workers);
                    let b = if units <= 2 { if thorough { 3 } else { 2 } } else if thorough { 2 } else { 1 };
                    v.push((s, b));
                }
            }
        }
    }
    // slow producer: the caller writes one unit per call and does something else in between (a free scheduling point), so
    // that workers can finish many later units while an earlier one is still being compressed, without the caller ever
    // entering its back-pressure wait
    // (one preemption is needed to park a worker in the middle of its unit; the data is period-48 text, cheap to encode)
    for kind in [Kind::W2, Kind::WL] {
        for (workers, units) in [(2u32, 9usize)] {
            // 1.5 M schedules per scenario at bound 1 (measured: 8 min on 16 cores for both writers): thorough tier only;
            // the quick tier explores the 2^units yield choices without preemption
            let bound = if thorough { 1 } else { 0 };
            let mut ops = vec![];
            for _ in 0..units {
                ops.push(WOp::Write(UNIT));
                ops.push(WOp::Yield);
            }
            let pat = scen::text_input(48, 3);
            let input: Vec<u8> = pat.iter().cycle().take(units * UNIT).copied().collect();
            let s = writer(&format!("in{units}u/slow-producer"), kind.clone(), input, ops, workers);
            v.push((s, bound));
        }
    }
    if thorough {
        for kind in [Kind::W2, Kind::WL] {
            for workers in [2u32, 3] {
                let s = writer("in6u/one", kind.clone(), scen::text_input(6 * UNIT, 17), vec![], workers);
                v.push((s, 1));
            }
        }
    }
    // worker limits 0 and u32::MAX
    // MT LZMA2 writer with a preset dictionary in its options; the second and third unit begin with the preset's own
    // content (a unit that was encoded against the preset would contain matches into it)
    {
        let p = scen::preset_text();
        let mut input = scen::text_input(UNIT, 17);
        for k in 0..2 {
            input.extend_from_slice(&p);
            input.extend_from_slice(&scen::text_input(UNIT - p.len(), 40 + k));
        }
        input.extend_from_slice(&p[..5]);
        for workers in [1u32, 2] {
            v.push((writer("preset-in3u+5/one", Kind::W2P, input.clone(), vec![], workers), if workers == 1 { 2 } else { 1 }));
        }
    }
    for w in [0u32, u32::MAX] {
        for kind in [Kind::W2, Kind::WL] {
            let s = writer("in3u+5/one", kind, scen::text_input(3 * UNIT + 5, 17), vec![], w);
            v.push((s, 1));
        }
    }
    v
}

fn fault_variants(thorough: bool) -> Vec<(Scenario, u32)> {
    let mut v = vec![];
    let b = if thorough { 2 } else { 1 };
    // --- LZMA2 reader: damaged / truncated / unterminated / empty input
    let base3 = scen::stream_unc_units(3);
    let lz2 = scen::stream_lzma2(2, 5, 0, false, None).0;
    let mut bad: Vec<(String, Vec<u8>)> = vec![];
    bad.push(("empty/zero-bytes".into(), vec![]));
    bad.push(("noterm/unc3".into(), base3[..base3.len() - 1].to_vec()));
    bad.push(("noterm/lz2".into(), lz2[..lz2.len() - 1].to_vec()));
    bad.push(("trunc/in-header".into(), base3[..base3.len() - 1 - 5].to_vec()));
    bad.push(("trunc/in-body".into(), base3[..base3.len() - 1 - 2].to_vec()));
    bad.push(("trunc/lz-body".into(), lz2[..lz2.len() / 2].to_vec()));
    for j in 0..3 {
        let mut s = base3.clone();
        s[j * 6] = 0x03; // reserved control byte in unit j
        bad.push((format!("corrupt/ctrl-unit{j}"), s));
    }
    {
        // damage LZMA payload of the second unit so that only a worker can notice
        let units = scen::count_units(&lz2);
        assert!(units >= 2);
        let mut s = lz2.clone();
        // second independent chunk: find it
        let mut i = 0;
        let mut starts = vec![];
        while s[i] != 0 {
            let c = s[i];
            if c >= 0xE0 || c == 1 {
                starts.push(i);
            }
            if c >= 0x80 {
                let cs = u16::from_be_bytes([s[i + 3], s[i + 4]]) as usize + 1;
                i += 5 + if c >= 0xC0 { 1 } else { 0 } + cs;
            } else {
                i += 3 + u16::from_be_bytes([s[i + 1], s[i + 2]]) as usize + 1;
            }
        }
        let u1 = starts[1];
        let mut s1 = s.clone();
        s1[u1 + 6] = 0x01; // first byte of the range coder payload must be 0
        bad.push(("corrupt/rc-first-byte-unit1".into(), s1));
        for k in 10..40 {
            s[u1 + 6 + k] ^= 0xA5;
        }
        bad.push(("corrupt/lzma-data-unit1".into(), s));
        let mut s0 = lz2.clone();
        let u0 = starts[0];
        for k in 10..40 {
            s0[u0 + 6 + k] ^= 0x5A;
        }
        bad.push(("corrupt/lzma-data-unit0".into(), s0));
    }
    // more units than the reader queues ahead (it stops reading the source while four units are waiting), one of them
    // damaged: the coordinator is then blocked in its back-pressure wait, not yet draining, when the worker fails
    for k in [7usize, 9] {
        let basek = scen::stream_unc_units(k);
        for j in [0usize, 1, 4, k - 1] {
            let mut s = basek.clone();
            s[j * 6] = 0x03;
            bad.push((format!("corrupt/unc{k}-ctrl-unit{j}"), s));
        }
        // damage that only a worker can notice (the coordinator copies chunks without decoding them): an LZMA chunk
        // without properties (control 0x80) appended to unit j
        for j in [0usize, 1, 4, k - 1] {
            let mut s = basek[..(j + 1) * 6].to_vec();
            s.extend_from_slice(&[0x80, 0x00, 0x00, 0x00, 0x00, 0x00]);
            s.extend_from_slice(&basek[(j + 1) * 6..]);
            bad.push((format!("corrupt/unc{k}-noprops-unit{j}"), s));
        }
        bad.push((format!("noterm/unc{k}"), basek[..basek.len() - 1].to_vec()));
        bad.push((format!("trunc/unc{k}-in-body"), basek[..basek.len() - 1 - 2].to_vec()));
    }
    for (name, stream) in bad {
        for workers in [1u32, 2, 0] {
            let mut s = reader(&name, Kind::R2 { preset: None }, stream.clone(), None, workers, 4096);
            s.must_err = true;
            v.push((s, b));
        }
    }
    // --- inner read error at call j
    for (name, stream) in [("unc3", base3.clone()), ("lz2+5", lz2.clone())] {
        // number of read calls the coordinator makes is bounded by 4 per chunk + 1
        let max_calls = if name == "unc3" { 11 } else { 14 };
        for j in 1..=max_calls {
            for workers in [1u32, 2] {
                let mut s = reader(name, Kind::R2 { preset: None }, stream.clone(), None, workers, 4096);
                s.fail_at = j;
                v.push((s, 1));
            }
        }
    }
    {
        let base9 = scen::stream_unc_units(9);
        for j in [1usize, 2, 9, 17, 25, 28] {
            for workers in [1u32, 2] {
                let mut s = reader("unc9", Kind::R2 { preset: None }, base9.clone(), None, workers, 4096);
                s.fail_at = j;
                v.push((s, 1));
            }
        }
    }
    // --- LZIP reader
    let (lzip3, _) = scen::stream_lzip(&[100, 3000, 5]);
    let mut badl: Vec<(String, Vec<u8>)> = vec![];
    {
        let mut s = lzip3.clone();
        let n = s.len();
        s[n - 20] ^= 0xFF; // CRC of the last member
        badl.push(("corrupt/last-crc".into(), s));
        let mut s = lzip3.clone();
        s[20] ^= 0x55; // payload of the first member
        badl.push(("corrupt/first-payload".into(), s));
        badl.push(("trunc/half".into(), lzip3[..lzip3.len() / 2].to_vec()));
        badl.push(("trunc/minus1".into(), lzip3[..lzip3.len() - 1].to_vec()));
        badl.push(("empty/zero-bytes".into(), vec![]));
    }
    {
        let (lzip7, _) = scen::stream_lzip(&[30, 10, 0, 20, 5, 40, 3]);
        let ms = {
            let mut v = vec![];
            let mut end = lzip7.len();
            while end >= 26 {
                let m = u64::from_le_bytes(lzip7[end - 8..end].try_into().unwrap()) as usize;
                v.push((end - m, end));
                end -= m;
            }
            v.reverse();
            v
        };
        for j in [0usize, 1, 3, 6] {
            let mut s = lzip7.clone();
            s[ms[j].0 + 8] ^= 0x55; // payload
            badl.push((format!("corrupt/m7-payload-m{j}"), s));
            let mut s = lzip7.clone();
            s[ms[j].1 - 20] ^= 0xFF; // CRC
            badl.push((format!("corrupt/m7-crc-m{j}"), s));
        }
    }
    for (name, stream) in badl {
        for workers in [1u32, 2, 0] {
            let mut s = reader(&name, Kind::RL, stream.clone(), None, workers, 4096);
            s.must_err = true;
            v.push((s, b));
        }
    }
    for j in 1..=12 {
        let mut s = reader("m3", Kind::RL, lzip3.clone(), None, 2, 4096);
        s.fail_at = j;
        v.push((s, 1));
    }
    // --- writers with more units than they queue ahead: sink error at write call j
    for kind in [Kind::W2, Kind::WL] {
        for j in [1usize, 2, 4, 6, 7, 8] {
            for workers in [1u32, 2] {
                let mut s = writer("in6u+5/one", kind.clone(), scen::text_input(6 * UNIT + 5, 17), vec![], workers);
                s.fail_at = j;
                v.push((s, 1));
            }
        }
    }
    // --- writers: sink error at write call j
    for kind in [Kind::W2, Kind::WL] {
        for j in 1..=4 {
            for workers in [1u32, 2, 0] {
                let mut s = writer("in3u+5/one", kind.clone(), scen::text_input(3 * UNIT + 5, 17), vec![], workers);
                s.fail_at = j;
                v.push((s, 1));
                let mut s = writer("in3u+5/flushunit", kind.clone(), scen::text_input(3 * UNIT + 5, 17), vec![WOp::Write(UNIT), WOp::Flush], workers);
                s.fail_at = j;
                v.push((s, 1));
            }
        }
    }
    v
}

fn drop_variants(thorough: bool) -> Vec<(Scenario, u32)> {
    let mut v = vec![];
    let b = if thorough { 3 } else { 2 };
    // readers dropped after 0..n reads
    for (name, stream, nreads) in [
        ("unc3", scen::stream_unc_units(3), 4usize),
        ("lz2+5", scen::stream_lzma2(2, 5, 0, false, None).0, 4),
        ("unc5", scen::stream_unc_units(5), 2),
    ] {
        for d in 0..=nreads {
            for workers in [1u32, 2, 3] {
                let mut s = reader(name, Kind::R2 { preset: None }, stream.clone(), None, workers, 4096);
                s.drop_after = d;
                v.push((s, if name == "unc5" { b - 1 } else { b }));
            }
        }
    }
    for d in 0..=2 {
        for workers in [1u32, 2] {
            let mut s = reader("unc9", Kind::R2 { preset: None }, scen::stream_unc_units(9), None, workers, 4096);
            s.drop_after = d;
            v.push((s, b - 1));
        }
    }
    // seven members: the LZIP reader's back-pressure wait is reached (found missing by the vacuity check on the
    // back-pressure coverage counter)
    for d in 0..=2 {
        for workers in [1u32, 2] {
            let mut s = reader("m7", Kind::RL, scen::stream_lzip(&[10, 20, 0, 30, 40, 5, 60]).0, None, workers, 4096);
            s.drop_after = d;
            v.push((s, b - 1));
        }
    }
    let (lzip3, _) = scen::stream_lzip(&[100, 3000, 5]);
    for d in 0..=3 {
        for workers in [1u32, 2] {
            let mut s = reader("m3", Kind::RL, lzip3.clone(), None, workers, 4096);
            s.drop_after = d;
            v.push((s, b));
        }
    }
    // reader dropped after an error was returned
    {
        let mut bad = scen::stream_unc_units(3);
        bad[6] = 0x03;
        for workers in [1u32, 2] {
            let mut s = reader("corrupt/ctrl-unit1", Kind::R2 { preset: None }, bad.clone(), None, workers, 4096);
            s.must_err = true;
            v.push((s, b));
        }
    }
    // writers: dropped after 0..n ops without finish; finished normally; dropped after flush
    for kind in [Kind::W2, Kind::WL] {
        for workers in [1u32, 2, 3] {
            let input = scen::text_input(2 * UNIT + 5, 17);
            let ops = vec![WOp::Write(UNIT), WOp::Flush, WOp::Write(UNIT), WOp::Write(5)];
            for d in 0..=4 {
                let mut s = writer("in2u+5/steps", kind.clone(), input.clone(), ops.clone(), workers);
                s.drop_after = d;
                s.finish = false;
                v.push((s, b));
            }
            let s = writer("in2u+5/steps", kind.clone(), input.clone(), ops.clone(), workers);
            v.push((s, b));
            let mut s = writer("in2u+5/one-nofinish", kind.clone(), input.clone(), vec![], workers);
            s.finish = false;
            v.push((s, b));
        }
        // more units than are queued ahead: dropped without finish after the write / after write + flush; finished
        for workers in [1u32, 2] {
            for (on, ops, fin) in [("one-nofinish", vec![], false), ("flush-nofinish", vec![WOp::Write(6 * UNIT + 5), WOp::Flush], false), ("one", vec![], true)] {
                let mut s = writer(&format!("in6u+5/{on}"), kind.clone(), scen::text_input(6 * UNIT + 5, 17), ops, workers);
                s.finish = fin;
                v.push((s, b - 1));
            }
        }
        // sink error, then drop
        let mut s = writer("in2u+5/one", kind.clone(), scen::text_input(2 * UNIT + 5, 17), vec![], 2);
        s.fail_at = 1;
        v.push((s, b));
    }
    // the queue alone
    for (items, stealers, bound) in [(1u32, 1u32, 64u32), (2, 1, 64), (0, 1, 64), (2, 2, if thorough { 4 } else { 3 }), (3, 2, if thorough { 3 } else { 2 })] {
        let s = Scenario {
            name: "queue".into(),
            kind: Kind::Q { items, stealers, close: true },
            data: Arc::new(vec![]),
            workers: stealers,
            bufsize: 0,
            wops: vec![],
            drop_after: usize::MAX,
            finish: true,
            fail_at: 0,
            expect: Arc::new(Ok(vec![])),
            units: 0,
            must_err: false,
            mutant: false,
        };
        v.push((s, bound));
    }
    v
}

/// C09, input dimension: every single-byte substitution (all 255 other values at header/trailer positions, four
/// values at payload positions in the quick tier, all 255 in the thorough tier) and every truncation of small valid
/// streams, each under every schedule within the bound. Oracle: every call returns, and the outcome agrees with the
/// single-threaded reader on the same bytes.
fn mutant_variants(thorough: bool) -> Vec<(Scenario, u32)> {
    let mut v = vec![];
    let unc2 = scen::stream_unc_units(2);
    let (lzc2, _) = scen::stream_lzma2_small(2);
    let (m2s, _) = scen::stream_lzip(&[10, 20]);
    // positions whose every value is enumerated also in the quick tier
    let lz_hdr: Vec<usize> = {
        let mut h = vec![];
        let mut i = 0;
        while i < lzc2.len() && lzc2[i] != 0 {
            let c = lzc2[i];
            let (hl, cs) = if c >= 0x80 {
                (5 + if c >= 0xC0 { 1 } else { 0 }, u16::from_be_bytes([lzc2[i + 3], lzc2[i + 4]]) as usize + 1)
            } else {
                (3, u16::from_be_bytes([lzc2[i + 1], lzc2[i + 2]]) as usize + 1)
            };
            // header and the first two payload bytes (range coder start)
            h.extend(i..i + hl + 2);
            i += hl + cs;
        }
        h.push(i);
        h
    };
    let lzip_hdr: Vec<usize> = {
        let mut h = vec![];
        let mut end = m2s.len();
        while end >= 26 {
            let ms = u64::from_le_bytes(m2s[end - 8..end].try_into().unwrap()) as usize;
            h.extend(end - 20..end);
            h.extend(end - ms..end - ms + 7);
            end -= ms;
        }
        h
    };
    let fams: [(&str, &Vec<u8>, Kind, Vec<usize>, u32); 3] = [
        ("unc2", &unc2, Kind::R2 { preset: None }, (0..unc2.len()).collect(), if thorough { 2 } else { 1 }),
        ("lzc2", &lzc2, Kind::R2 { preset: None }, lz_hdr, 1),
        ("m2s", &m2s, Kind::RL, lzip_hdr, 1),
    ];
    for (fname, base, kind, all_pos, bound) in fams {
        for i in 0..base.len() {
            let full = thorough || all_pos.contains(&i);
            let vals: Vec<u8> = if full {
                (0..=255u8).filter(|b| *b != base[i]).collect()
            } else {
                let mut t = vec![base[i] ^ 1, base[i] ^ 0x80, 0x00, 0xFF];
                t.retain(|b| *b != base[i]);
                t.dedup();
                t
            };
            for b in vals {
                let mut m = base.clone();
                m[i] = b;
                let mut s = reader(&format!("mut/{fname}/sub@{i}={b:02x}"), kind.clone(), m, None, 2, 4096);
                s.mutant = true;
                v.push((s, bound));
            }
        }
        for n in 0..base.len() {
            let mut s = reader(&format!("mut/{fname}/trunc@{n}"), kind.clone(), base[..n].to_vec(), None, 2, 4096);
            s.mutant = true;
            v.push((s, bound));
        }
    }
    v
}

pub fn menu(prop: &str, thorough: bool) -> Vec<(Arc<Scenario>, u32)> {
    let mut v: Vec<(Scenario, u32)> = match prop {
        "C08" => {
            let mut v = valid_readers(thorough);
            v.extend(valid_writers(thorough));
            v
        }
        "C09" => {
            let mut v = fault_variants(thorough);
            // valid runs must succeed as well ("never reports success with part of the data missing")
            v.extend(valid_readers(false).into_iter().filter(|(s, _)| matches!(s.workers, 2 | 0 | u32::MAX)).map(|(s, b)| (s, b.min(1))));
            v.extend(valid_writers(false).into_iter().filter(|(s, _)| matches!(s.workers, 2 | 0 | u32::MAX)).map(|(s, b)| (s, b.min(1))));
            v.extend(mutant_variants(thorough));
            v
        }
        "C10" => drop_variants(thorough),
        "C13" => valid_writers(thorough),
        "C18" => {
            let mut v: Vec<(Scenario, u32)> = valid_readers(thorough).into_iter().filter(|(s, _)| s.bufsize == 4096).collect();
            v.extend(valid_writers(thorough).into_iter().filter(|(s, _)| s.workers >= 2));
            v
        }
        _ => vec![],
    };
    // development aid: explore only the scenarios whose description contains the given text
    if let Ok(f) = std::env::var("VERIF_SCEN_FILTER") {
        v.retain(|(s, _)| s.desc().contains(&f));
    }
    v.into_iter().map(|(s, b)| (Arc::new(s), b)).collect()
}
