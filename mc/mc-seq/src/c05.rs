//! C05 — truncation and I/O faults surface as errors, never as wrong or endless data (E-env:
//! deviation-bounded exploration of the environment's answers on every read / write call).

use crate::codec::{self, Bcj, Container, Op, Opts, ALL_BCJ};
use crate::common::*;
use crate::corpus::{self, Item};
use lzma_rust2::filter::bcj2::BCJ2Reader;
use lzma_rust2::filter::delta::{DeltaReader, DeltaWriter};
use mc_core::explore::{self, Ctx, Stats};
use mc_core::fio::{FaultyRead, FaultySink, ReadAns, SinkState, WriteAns, INJECTED_KIND};
use mc_core::gen::{self, Seg};
use mc_core::report::brief;
use mc_core::run::{catch, par_for_with, Cli};
use mc_core::{Report, Violation};
use serde_json::json;
use std::cell::RefCell;
use std::io::{self, Read, Write};
use std::sync::Mutex;

pub const READ_MENU: [ReadAns; 6] = [ReadAns::Full, ReadAns::One, ReadAns::Two, ReadAns::Interrupted, ReadAns::Error, ReadAns::Eof];
pub const WRITE_MENU: [WriteAns; 4] = [WriteAns::All, WriteAns::One, WriteAns::Interrupted, WriteAns::Error];

type OpenFn = Box<dyn for<'a> Fn(Box<dyn Read + 'a>) -> io::Result<Box<dyn Read + 'a>> + Send + Sync>;

pub struct RCase {
    pub name: String,
    pub family: &'static str,
    pub bytes: Vec<u8>,
    pub expect: Vec<u8>,
    pub open: OpenFn,
    /// (compressed offset, decoded length) pairs at which the file is itself complete
    /// (LZIP member ends): EOF exactly there legitimately yields that prefix.
    pub complete_at: Vec<(usize, usize)>,
}

pub fn reader_cases(items: &[Item]) -> Vec<RCase> {
    let mut v = vec![];
    for it in items {
        let cont = it.cont.clone();
        let opts = it.opts;
        let ilen = it.input.len();
        let mut complete_at = vec![];
        if matches!(cont, Container::Lzip { .. }) {
            let ms = crate::c04::lzip_members(&it.bytes);
            let mut acc = 0usize;
            for (_, e) in &ms {
                acc += u64::from_le_bytes(it.bytes[e - 16..e - 8].try_into().unwrap()) as usize;
                complete_at.push((*e, acc));
            }
        }
        v.push(RCase {
            name: it.name.clone(),
            family: it.cont.family(),
            bytes: it.bytes.clone(),
            expect: it.input.clone(),
            open: Box::new(move |src| Ok(Box::new(codec::open_reader(&cont, &opts, src, ilen, true)?) as Box<dyn Read>)),
            complete_at,
        });
    }
    // the multi-threaded LZMA2 reader over the same raw LZMA2 streams (its coordinator reads the source on the caller's
    // thread; real worker threads, the result must not depend on their timing)
    for it in items {
        if matches!(it.cont, Container::Lzma2 | Container::Lzma2Chunk(_)) {
            let dict = it.opts.dict;
            v.push(RCase {
                name: format!("{}-mt2", it.name),
                family: "lzma2-mt",
                bytes: it.bytes.clone(),
                expect: it.input.clone(),
                open: Box::new(move |src| Ok(Box::new(lzma_rust2::LZMA2ReaderMT::new(src, dict, None, 2)) as Box<dyn Read>)),
                complete_at: vec![],
            });
        }
    }
    // standalone filter readers
    let code = gen::build(&[Seg::X(300)], 1);
    for b in ALL_BCJ {
        let mut enc = Vec::new();
        b.writer(&mut enc, 0).write_all(&code).unwrap();
        v.push(RCase {
            name: format!("bcj-{}", b.name()),
            family: "bcj",
            bytes: enc,
            expect: code.clone(),
            open: Box::new(move |src| Ok(Box::new(b.reader(src, 0)) as Box<dyn Read>)),
            complete_at: vec![],
        });
    }
    {
        // a stream that crosses the BCJ reader's 4096-byte buffer
        let code = gen::build(&[Seg::X(9000)], 1);
        let mut enc = Vec::new();
        Bcj::X86.writer(&mut enc, 0).write_all(&code).unwrap();
        v.push(RCase {
            name: "bcj-x86-9000".into(),
            family: "bcj",
            bytes: enc,
            expect: code,
            open: Box::new(move |src| Ok(Box::new(Bcj::X86.reader(src, 0)) as Box<dyn Read>)),
            complete_at: vec![],
        });
    }
    for d in [1usize, 3, 256] {
        let data = gen::build(&[Seg::C(300)], 1);
        let mut enc = Vec::new();
        DeltaWriter::new(&mut enc, d).write_all(&data).unwrap();
        v.push(RCase {
            name: format!("delta-{d}"),
            family: "delta",
            bytes: enc,
            expect: data,
            open: Box::new(move |src| Ok(Box::new(DeltaReader::new(src, d)) as Box<dyn Read>)),
            complete_at: vec![],
        });
    }
    v
}

/// A pure (no prefix that is complete) filter stream: BCJ and Delta are 1:1 transforms, every
/// prefix of the encoded bytes is a valid encoding of a prefix (modulo the tail), so truncation is
/// not detectable and not required to be.
fn truncation_detectable(family: &str) -> bool {
    !matches!(family, "bcj" | "delta")
}

pub struct ROutcome {
    pub result: Result<Vec<u8>, (io::ErrorKind, String)>,
    pub error_at: Option<u32>,
    pub eof_at: Option<(u32, usize)>,
    pub benign: u32,
    pub calls: u32,
}

/// Adapter that mirrors the fault source's counters into a cell that outlives the reader.
struct Probed<'a> {
    inner: FaultyRead<'a>,
    probe: &'a RefCell<(Option<u32>, Option<(u32, usize)>, u32, u32)>,
}

impl Read for Probed<'_> {
    fn read(&mut self, buf: &mut [u8]) -> io::Result<usize> {
        let r = self.inner.read(buf);
        *self.probe.borrow_mut() = (self.inner.error_at, self.inner.eof_at, self.inner.benign_devs, self.inner.calls);
        r
    }
}

pub fn run_reader(case: &RCase, ctx: &RefCell<Ctx>, menu: &[ReadAns], bufsize: usize) -> ROutcome {
    let probe = RefCell::new((None, None, 0, 0));
    let limit = case.expect.len() * 2 + (1 << 16);
    let result = {
        let src = Probed { inner: FaultyRead::new(&case.bytes, ctx, menu), probe: &probe };
        (|| -> io::Result<Vec<u8>> {
            let mut r = (case.open)(Box::new(src))?;
            codec::read_all(&mut r, bufsize, limit)
        })()
    };
    let p = *probe.borrow();
    ROutcome { result: result.map_err(|e| (e.kind(), e.to_string())), error_at: p.0, eof_at: p.1, benign: p.2, calls: p.3 }
}

fn judge_reader(rep: &Report, case: &RCase, o: &ROutcome, desc: &dyn Fn() -> String) -> bool {
    let at = match o.eof_at {
        Some((_, 0)) => "eof-at-offset-0",
        Some(_) => "eof-mid-stream",
        None => "-",
    };
    let mk = |kind: &str, site: String, detail: String| {
        rep.violation(Violation::new(kind, site, desc()).attr("family", case.family).attr("side", "reader").attr("eof", at).detail(detail));
    };
    match &o.result {
        Ok(out) => {
            if o.error_at.is_some() {
                mk("no-error", "injected source error was swallowed: the reader reported success".into(), format!("error injected at source call {:?}; reader returned Ok with {} bytes (expected {})", o.error_at, out.len(), case.expect.len()));
                return false;
            }
            if let Some((_, pos)) = o.eof_at {
                if pos < case.bytes.len() {
                    // truncated: only a complete prefix is acceptable
                    // the file is complete at a member end; up to three more bytes cannot be the
                    // member magic and are trailing data by the format's (and C04's) rule
                    if let Some((_, n)) = case.complete_at.iter().find(|(c, _)| pos >= *c && pos < *c + 4) {
                        if out[..] == case.expect[..*n] {
                            return true;
                        }
                    }
                    if !truncation_detectable(case.family) {
                        if case.expect.starts_with(out) {
                            return true;
                        }
                        mk("wrong-bytes", "truncated filter stream decoded to bytes that are not a prefix of the original".into(), format!("cut at {pos}/{}", case.bytes.len()));
                        return false;
                    }
                    mk(
                        "no-error",
                        "source ended before the stream was complete but the reader reported success".into(),
                        format!("EOF at source offset {pos} of {}; reader returned Ok with {} bytes (original {})", case.bytes.len(), out.len(), case.expect.len()),
                    );
                    return false;
                }
            }
            if out != &case.expect {
                mk(
                    "wrong-bytes",
                    "short reads / Interrupted changed the decoded bytes".into(),
                    format!("benign deviations {}; out {} vs expect {}", o.benign, brief(out), brief(&case.expect)),
                );
                return false;
            }
            true
        }
        Err((kind, text)) => {
            if text.starts_with("verif: output exceeds bound") {
                mk("endless-output", "reader keeps producing output after the source failed or ended".into(), format!("error_at={:?} eof_at={:?}", o.error_at, o.eof_at));
                return false;
            }
            if text.starts_with("verif:") {
                mk("protocol", text.clone(), String::new());
                return false;
            }
            if o.error_at.is_some() {
                if *kind != INJECTED_KIND {
                    mk(
                        "error-kind-lost",
                        format!("source error kind replaced by {kind:?}"),
                        format!("injected ConnectionReset at source call {:?}; caller saw {kind:?}: {text}", o.error_at),
                    );
                    return false;
                }
                return true;
            }
            if let Some((_, pos)) = o.eof_at {
                if pos < case.bytes.len() {
                    return true; // truncated -> error: fine
                }
            }
            mk(
                "spurious-error",
                format!("valid stream, benign environment, but the reader failed: {kind:?}: {}", mc_core::run::normalise(text)),
                format!("benign deviations {} eof_at {:?}", o.benign, o.eof_at),
            );
            false
        }
    }
}

// ------------------------------------------------------------------ writers

pub struct WCase {
    pub name: String,
    pub family: &'static str,
    pub input: Vec<u8>,
    pub reference: Vec<u8>,
    pub run: Box<dyn for<'a> Fn(FaultySink<'a>, &[u8]) -> io::Result<()> + Send + Sync>,
}

pub fn writer_cases() -> Vec<WCase> {
    let mut v = vec![];
    let o = Opts::small();
    let inputs: Vec<(&str, Vec<u8>)> = vec![("text300", gen::build(&[Seg::C(300)], 1)), ("raw5000", gen::build(&[Seg::R(5000)], 1)), ("code9000", gen::build(&[Seg::X(9000)], 1))];
    let conts = vec![
        Container::LzmaHdrMarker,
        Container::LzmaHdrSize,
        Container::Lzma2,
        Container::Lzma2Chunk(1),
        Container::Xz { check: 1, block: None, filters: vec![] },
        Container::Xz { check: 4, block: Some(1), filters: vec![crate::codec::Filt::Delta(2)] },
        Container::Xz { check: 1, block: None, filters: vec![crate::codec::Filt::Bcj(Bcj::X86, 0)] },
        Container::Lzip { member: None },
        Container::Lzip { member: Some(1) },
    ];
    for (iname, input) in &inputs {
        for c in &conts {
            let ops: Vec<Op> = if input.len() > 4096 { vec![Op::Write(4096), Op::Flush] } else { vec![Op::Write(100), Op::Flush] };
            let Ok(reference) = codec::encode(c, &o, input, &ops) else { continue };
            let c2 = c.clone();
            let ops2 = ops.clone();
            v.push(WCase {
                name: format!("{}|{}", c.desc(), iname),
                family: c.family(),
                input: input.clone(),
                reference,
                run: Box::new(move |sink, input| codec::encode_into(&c2, &o, input, &ops2, sink).map(|_| ())),
            });
        }
        for b in [Bcj::X86, Bcj::Arm, Bcj::Ia64] {
            let mut reference = Vec::new();
            b.writer(&mut reference, 0).write_all(input).unwrap();
            v.push(WCase {
                name: format!("bcjwriter-{}|{}", b.name(), iname),
                family: "bcj",
                input: input.clone(),
                reference,
                run: Box::new(move |sink, input| {
                    let mut w = b.writer(sink, 0);
                    w.write_all(input)?;
                    w.flush()
                }),
            });
        }
        for d in [1usize, 256] {
            let mut reference = Vec::new();
            DeltaWriter::new(&mut reference, d).write_all(input).unwrap();
            v.push(WCase {
                name: format!("deltawriter-{d}|{iname}"),
                family: "delta",
                input: input.clone(),
                reference,
                run: Box::new(move |sink, input| {
                    let mut w = DeltaWriter::new(sink, d);
                    w.write_all(input)?;
                    w.flush()
                }),
            });
        }
    }
    v
}

fn judge_writer(rep: &Report, case: &WCase, r: &Result<io::Result<()>, mc_core::run::PanicInfo>, st: &SinkState, desc: &dyn Fn() -> String) -> bool {
    let mk = |kind: &str, site: String, detail: String| {
        rep.violation(Violation::new(kind, site, desc()).attr("family", case.family).attr("side", "writer").detail(detail));
    };
    match r {
        Err(p) => {
            mk("panic", p.site(), format!("{}:{} {}", p.file, p.line, p.msg));
            false
        }
        Ok(Ok(())) => {
            if st.error_at.is_some() {
                mk("no-error", "sink error was swallowed: the writer reported success".into(), format!("sink failed at its call {:?}", st.error_at));
                return false;
            }
            if st.out != case.reference {
                mk(
                    "wrong-bytes",
                    "short writes / Interrupted changed the compressed bytes".into(),
                    format!("benign deviations {}; got {} vs reference {}", st.benign_devs, brief(&st.out), brief(&case.reference)),
                );
                return false;
            }
            true
        }
        Ok(Err(e)) => {
            if st.error_at.is_some() {
                if e.kind() != INJECTED_KIND {
                    mk("error-kind-lost", format!("sink error kind replaced by {:?}", e.kind()), e.to_string());
                    return false;
                }
                return true;
            }
            mk("spurious-error", format!("benign sink behaviour made the writer fail: {:?}: {}", e.kind(), mc_core::run::normalise(&e.to_string())), format!("benign deviations {}", st.benign_devs));
            false
        }
    }
}

pub fn run(cli: &Cli, rep: &Report) {
    let thorough = cli.thorough();
    rep.rule(
        "E-env: for every reader over every corpus stream, every sequence of source answers from {full, 1 byte, 2 bytes, Interrupted, sticky Err(ConnectionReset), sticky EOF} \
         with at most d deviations from 'full' (d=1 everywhere, d=2 on streams needing <= 60 read calls; thorough d=2 up to 200 calls and d=3 up to 25); symmetric for every writer \
         over a sink answering {all, 1 byte, Interrupted, sticky Err}; an execution is non-trivial when at least one deviation landed in a call the code made",
    );
    rep.assumption("errors are sticky (a failed source/sink keeps failing); the caller retries Interrupted like read_to_end/write_all do");
    rep.assumption("BCJ/Delta streams are 1:1 transforms: truncation is undetectable by construction, the check only requires a prefix there");
    let mut items = corpus::small();
    if thorough {
        items.extend(corpus::medium());
    }
    let rcases = reader_cases(&items);
    let wcases = writer_cases();
    rep.extra("streams", json!({"readers": rcases.len(), "writers": wcases.len()}));
    let total = Mutex::new(Stats::default());
    let nr = rcases.len();
    par_for_with(
        nr + wcases.len(),
        1,
        |_| (),
        |_, i| {
            if i < nr {
                let case = &rcases[i];
                // probe run: how many read calls does the fault-free decode make?
                let probe_ctx = RefCell::new(Ctx::default());
                let calls = run_reader(case, &probe_ctx, &READ_MENU, 4096).calls;
                let bound = if thorough {
                    if calls <= 25 { 3 } else if calls <= 200 { 2 } else { 1 }
                } else if calls <= 60 { 2 } else { 1 };
                let mut nontrivial = vec![];
                let run_one = |c: &mut Ctx| {
                    let cell = RefCell::new(std::mem::take(c));
                    let out = catch(|| run_reader(case, &cell, &READ_MENU, 4096));
                    *c = cell.into_inner();
                    (out, c.desc())
                };
                if let Some(only) = &cli.only {
                    let prefix = format!("C05|r|{}|", case.name);
                    for o in only.iter().filter(|o| o.starts_with(&prefix)) {
                        let Some(forced) = explore::parse_desc(&o[prefix.len()..]) else { continue };
                        let mut c = Ctx::with_forced(forced);
                        let (out, d) = run_one(&mut c);
                        rep.add("evaluations", 1);
                        let desc = || format!("C05|r|{}|{}", case.name, d);
                        match out {
                            Ok(o) => {
                                judge_reader(rep, case, &o, &desc);
                            }
                            Err(p) => rep.violation(Violation::new("panic", p.site(), desc()).attr("family", case.family).attr("side", "reader").detail(p.msg)),
                        }
                    }
                    return;
                }
                let st = explore::explore(bound, 5_000_000, |c| {
                    let (out, d) = run_one(c);
                    let desc = || format!("C05|r|{}|{}", case.name, d);
                    match out {
                        Ok(o) => {
                            if judge_reader(rep, case, &o, &desc) && c.deviations() > 0 {
                                nontrivial.push(hash_desc(&desc()));
                            }
                        }
                        Err(p) => rep.violation(Violation::new("panic", p.site(), desc()).attr("family", case.family).attr("side", "reader").detail(format!("{}:{} {}", p.file, p.line, p.msg))),
                    }
                });
                rep.nontrivial_many(&nontrivial);
                rep.add_many(&[("evaluations", st.runs), ("reader_runs", st.runs), ("choice_points", st.points)]);
                if st.capped {
                    rep.add("capped", 1);
                }
                if st.diverged > 0 {
                    rep.machinery_error(format!("{}: {} runs diverged while replaying a prefix", case.name, st.diverged));
                }
                if i % 9 == 0 {
                    rep.sample(json!({"reader_stream": case.name, "read_calls": calls, "deviation_bound": bound, "runs": st.runs, "by_deviations": st.by_devs}));
                }
                total.lock().unwrap().merge(&st);
            } else {
                let case = &wcases[i - nr];
                let run_one = |c: &mut Ctx| {
                    let cell = RefCell::new(std::mem::take(c));
                    let st = RefCell::new(SinkState::default());
                    let r = catch(|| (case.run)(FaultySink::new(&st, &cell, &WRITE_MENU), &case.input));
                    *c = cell.into_inner();
                    (r, st.into_inner(), c.desc())
                };
                if let Some(only) = &cli.only {
                    let prefix = format!("C05|w|{}|", case.name);
                    for o in only.iter().filter(|o| o.starts_with(&prefix)) {
                        let Some(forced) = explore::parse_desc(&o[prefix.len()..]) else { continue };
                        let mut c = Ctx::with_forced(forced);
                        let (r, st, d) = run_one(&mut c);
                        rep.add("evaluations", 1);
                        judge_writer(rep, case, &r, &st, &|| format!("C05|w|{}|{}", case.name, d));
                    }
                    return;
                }
                // sink calls of the fault-free run
                let mut c0 = Ctx::default();
                let (_, st0, _) = run_one(&mut c0);
                let bound = if st0.calls <= 80 { 2 } else { 1 };
                let mut nontrivial = vec![];
                let st = explore::explore(bound, 3_000_000, |c| {
                    let (r, sst, d) = run_one(c);
                    let desc = || format!("C05|w|{}|{}", case.name, d);
                    if judge_writer(rep, case, &r, &sst, &desc) && c.deviations() > 0 {
                        nontrivial.push(hash_desc(&desc()));
                    }
                });
                rep.nontrivial_many(&nontrivial);
                rep.add_many(&[("evaluations", st.runs), ("writer_runs", st.runs), ("choice_points", st.points)]);
                if st.capped {
                    rep.add("capped", 1);
                }
                if i % 7 == 0 {
                    rep.sample(json!({"writer": case.name, "sink_calls": st0.calls, "deviation_bound": bound, "runs": st.runs, "by_deviations": st.by_devs}));
                }
                total.lock().unwrap().merge(&st);
            }
        },
        |_| flush_cov(rep),
    );
    let t = total.lock().unwrap();
    rep.extra("runs_by_deviations", json!(t.by_devs));
    rep.max("max.choice_depth", t.max_depth as u64);
    let _ = BCJ2Reader::<&[u8]>::new(vec![], 0);
}
