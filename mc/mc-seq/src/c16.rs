//! C16 — readers consume exactly the bytes of their stream.

use crate::codec::{self, Bcj, Container, Filt, Opts};
use crate::common::*;
use crate::refimpl;
use mc_core::gen::{self, Seg};
use mc_core::report::brief;
use mc_core::run::{catch, par_for_with, Cli};
use mc_core::{Report, Violation};
use serde_json::json;
use std::io::Read;

fn containers() -> Vec<Container> {
    vec![
        Container::LzmaHdrMarker,
        Container::LzmaHdrSize,
        Container::LzmaRawMarker,
        Container::LzmaRawSize,
        Container::Lzma2,
        Container::Lzma2Chunk(1),
        Container::Lzma2Preset(300),
        Container::Xz { check: 1, block: None, filters: vec![] },
        Container::Xz { check: 0, block: None, filters: vec![] },
        Container::Xz { check: 10, block: Some(1), filters: vec![Filt::Delta(1)] },
        Container::Xz { check: 4, block: None, filters: vec![Filt::Bcj(Bcj::X86, 0)] },
    ]
}

const TRAILINGS: [&str; 6] = ["none", "00", "00x8", "FFx5", "second-stream", "last5"];

fn trailing(kind: usize, stream: &[u8]) -> Vec<u8> {
    match kind {
        0 => vec![],
        1 => vec![0],
        2 => vec![0; 8],
        3 => vec![0xFF; 5],
        4 => stream.to_vec(),
        _ => stream[stream.len().saturating_sub(5)..].to_vec(),
    }
}

/// Decode `stream + trailing` from a slice; returns (decoded, bytes left in the source).
fn decode_leaving(c: &Container, o: &Opts, data: &[u8], input_len: usize, bufsize: usize) -> std::io::Result<(Vec<u8>, usize)> {
    // single-stream mode for XZ (the property is about single-stream readers)
    let mut r = codec::open_reader(c, o, data, input_len, false)?;
    let mut out = Vec::new();
    let mut buf = vec![0u8; bufsize];
    loop {
        let n = r.read(&mut buf)?;
        if n == 0 {
            break;
        }
        out.extend_from_slice(&buf[..n]);
        if out.len() > input_len * 2 + 65536 {
            return Err(std::io::Error::other("verif: output exceeds bound"));
        }
    }
    // a second end-of-stream read must not consume anything either
    let n = r.read(&mut buf)?;
    if n != 0 {
        return Err(std::io::Error::other("verif: data after end of stream"));
    }
    let rest: &[u8] = r.into_inner();
    Ok((out, rest.len()))
}

struct Case {
    cont: Container,
    opts: Opts,
    input: Input,
}

pub fn run(cli: &Cli, rep: &Report) {
    let thorough = cli.thorough();
    rep.rule(
        "E-enum: every stream written for MICRO(A3,L) x GRID and MICRO(A3,L') x SUBGRID and mechanism-forcing shapes x MINIGRID, in 11 container variants \
         (LZMA end-marker/declared-size x header/raw, LZMA2 plain/chunked/preset, single-stream XZ with different checks, blocks and filters) plus liblzma-made streams, \
         is followed by each of 6 trailing byte strings (nothing, 00, 00x8, FFx5, a second valid stream, its own last 5 bytes) and read from a slice; after end of stream \
         the slice left in the source must be exactly the trailing bytes and the decoded bytes must be the input; destination sizes 65536 and, on a stated subset, 1/2/7; \
         non-trivial = non-empty trailing data",
    );
    rep.assumption("single-stream mode for XZ; sources are slices so the position is observable exactly");
    let conts = containers();
    let mut cases: Vec<Case> = vec![];
    let l1 = if thorough { 4 } else { 2 };
    let grid = grid();
    for s in 0..gen::micro_count(3, l1) {
        for o in &grid {
            for c in &conts {
                if c.accepts(o) {
                    cases.push(Case { cont: c.clone(), opts: *o, input: Input::Bytes(gen::micro_nth(&A3, s)) });
                }
            }
        }
    }
    let l2 = if thorough { 6 } else { 4 };
    let sub = subgrid(&[4096, 65536, 1 << 20]);
    for s in gen::micro_count(3, l1)..gen::micro_count(3, l2) {
        for o in &sub {
            for c in &conts {
                if c.accepts(o) {
                    cases.push(Case { cont: c.clone(), opts: *o, input: Input::Bytes(gen::micro_nth(&A3, s)) });
                }
            }
        }
    }
    let shapes: Vec<Vec<Seg>> = vec![
        vec![Seg::C(300)],
        vec![Seg::C(9000)],
        vec![Seg::X(9000)],
        vec![Seg::R(300)],
        vec![Seg::R(70000)],
        vec![Seg::Z(70000)],
        vec![Seg::C(5000), Seg::R(70000), Seg::D(3000, 9000)],
        vec![Seg::Z((2 << 20) + 1)],
        vec![Seg::X(300_000)],
    ];
    let mini = minigrid(&[4096, 65536]);
    for sh in &shapes {
        for o in &mini {
            for c in &conts {
                if c.accepts(o) {
                    cases.push(Case { cont: c.clone(), opts: *o, input: Input::Shape(sh.clone()) });
                }
            }
        }
    }
    // heavy (shape) cases first: better load balance
    cases.sort_by_key(|c| !matches!(c.input, Input::Shape(_)));
    rep.extra("cases", json!({"streams": cases.len(), "trailings": TRAILINGS.len(), "micro_grid_len": l1, "micro_subgrid_len": l2, "shapes": shapes.len(), "containers": conts.len()}));
    let n = cases.len();
    par_for_with(
        n,
        0,
        |_| (0u64, Vec::<u64>::new()),
        |st, i| {
            let case = &cases[i];
            let base = || format!("C16|{}|{}|{}", case.cont.desc(), case.opts.desc(), case.input.desc());
            if let Some(only) = &cli.only {
                let b = base();
                if !only.iter().any(|o| o.starts_with(&b)) {
                    return;
                }
            }
            let input = case.input.build(cli.seed);
            let stream = match catch(|| codec::encode(&case.cont, &case.opts, &input, &[])) {
                Ok(Ok(s)) => s,
                _ => return, // writer failures are C01/C02's business
            };
            let bufsizes: &[usize] = if i % 37 == 0 { &[65536, 1, 2, 7] } else { &[65536] };
            for (tk, tname) in TRAILINGS.iter().enumerate() {
                let tr = trailing(tk, &stream);
                let mut data = stream.clone();
                data.extend_from_slice(&tr);
                for &bs in bufsizes {
                    let desc = || format!("{}|trail:{}|buf{}", base(), tname, bs);
                    if !cli.selected_with(desc) {
                        continue;
                    }
                    st.0 += 1;
                    let mk = |kind: &str, site: String, detail: String| {
                        rep.violation(Violation::new(kind, site, desc()).attr("family", case.cont.family()).attr("container", case.cont.desc()).attr("trailing", *tname).detail(detail));
                    };
                    match catch(|| decode_leaving(&case.cont, &case.opts, &data, input.len(), bs)) {
                        Err(p) => mk("panic", p.site(), p.msg),
                        Ok(Err(e)) => mk(
                            "trailing-data-required-or-rejected",
                            format!("reader fails when the stream is followed by other data: {:?}: {}", e.kind(), mc_core::run::normalise(&e.to_string())),
                            format!("{e} | stream={} trailing={}", brief(&stream), brief(&tr)),
                        ),
                        Ok(Ok((out, left))) => {
                            if out != input {
                                mk("wrong-bytes", "decoded bytes change with trailing data".into(), format!("stream={}", brief(&stream)));
                            } else if left != tr.len() {
                                mk(
                                    if left < tr.len() { "over-read" } else { "under-read" },
                                    if left < tr.len() { "reader consumed bytes after the end of its stream".to_string() } else { "reader stopped before the end of its stream".to_string() },
                                    format!("stream {} bytes, trailing {} bytes, left in source {} | stream={}", stream.len(), tr.len(), left, brief(&stream)),
                                );
                            } else if !tr.is_empty() {
                                st.1.push(hash_desc(&desc()));
                            }
                        }
                    }
                }
            }
            if i % (n / 5 + 1) == 0 {
                rep.sample(json!({"stream": base(), "compressed_len": stream.len(), "trailings": TRAILINGS}));
            }
        },
        |st| {
            rep.add("evaluations", st.0);
            rep.nontrivial_many(&st.1);
            flush_cov(rep);
        },
    );

    // liblzma-made streams
    let t = gen::build(&[Seg::C(3000)], 1);
    let o = Opts::small();
    let mut foreign: Vec<(String, Container, Vec<u8>)> = vec![];
    for preset in [0u32, 6] {
        if let Ok(b) = refimpl::xz_encode_preset(&t, preset, 4) {
            foreign.push((format!("ref-xz-preset{preset}"), Container::Xz { check: 4, block: None, filters: vec![] }, b));
        }
    }
    if let Ok(b) = refimpl::alone_encode(&t, &o) {
        foreign.push(("ref-alone".into(), Container::LzmaHdrMarker, b));
    }
    if let Ok(b) = refimpl::raw_lzma2_encode(&t, &o, &[]) {
        foreign.push(("ref-raw-lzma2".into(), Container::Lzma2, b));
    }
    for (name, c, stream) in &foreign {
        for (tk, tname) in TRAILINGS.iter().enumerate() {
            let tr = trailing(tk, stream);
            let mut data = stream.clone();
            data.extend_from_slice(&tr);
            for bs in [65536usize, 1, 7] {
                let desc = format!("C16|{name}|trail:{tname}|buf{bs}");
                if !cli.selected(&desc) {
                    continue;
                }
                rep.add("evaluations", 1);
                match catch(|| decode_leaving(c, &o, &data, t.len(), bs)) {
                    Ok(Ok((out, left))) if out == t && left == tr.len() => rep.nontrivial(hash_desc(&desc)),
                    other => rep.violation(
                        Violation::new("over-read", "liblzma-made stream: source not left at the end of the stream", desc.clone())
                            .attr("family", c.family())
                            .attr("container", name)
                            .attr("trailing", *tname)
                            .detail(format!("{:?}", other.map(|r| r.map(|(o, l)| (o.len(), l)).map_err(|e| e.to_string())).map_err(|p| p.msg))),
                    ),
                }
            }
        }
    }
}
