//! Helpers shared by the checks: option grids, input specs, round-trip execution.

use crate::codec::{self, Container, Op, Opts};
use lzma_rust2::verif::cov;
use mc_core::gen::{self, Seg};
use mc_core::report::{brief, fnv};
use mc_core::run::catch;
use mc_core::{Report, Violation};

pub const A2: [u8; 2] = [0x00, 0xFF];
pub const A3: [u8; 3] = [0x00, 0x61, 0xFF];

#[derive(Clone, Debug)]
pub enum Input {
    Bytes(Vec<u8>),
    Shape(Vec<Seg>),
    /// bytes computed by the harness (named; too long to spell out in a descriptor)
    Named(String, std::sync::Arc<Vec<u8>>),
}

impl Input {
    pub fn desc(&self) -> String {
        match self {
            Input::Bytes(b) => format!("hex:{}", mc_core::report::hex(b)),
            Input::Shape(s) => format!("shape:{}", gen::shape_desc(s)),
            Input::Named(n, b) => format!("named:{n}:len{}", b.len()),
        }
    }
    pub fn build(&self, seed: u64) -> Vec<u8> {
        match self {
            Input::Bytes(b) => b.clone(),
            Input::Shape(s) => gen::build(s, seed),
            Input::Named(_, b) => b.as_ref().clone(),
        }
    }
    pub fn class(&self) -> &'static str {
        match self {
            Input::Bytes(_) => "micro",
            Input::Named(..) => "derived",
            Input::Shape(s) => {
                if s.iter().any(|g| matches!(g, Seg::R(n) if *n >= 4096)) {
                    "shape-incompressible"
                } else {
                    "shape"
                }
            }
        }
    }
}

/// Full option grid of DESIGN §1.3 (GRID).
pub fn grid() -> Vec<Opts> {
    let mut v = vec![];
    for &dict in &[4096u32, 5000, 65535, 65536] {
        for &lc in &[0u32, 3, 4, 8] {
            for &lp in &[0u32, 2, 4] {
                for &pb in &[0u32, 2, 4] {
                    for &nice in &[8u32, 32, 273] {
                        for &fast in &[true, false] {
                            for &bt4 in &[false, true] {
                                for &depth in &[0i32, 1, 4, 1000] {
                                    v.push(Opts { dict, lc, lp, pb, fast, bt4, nice, depth });
                                }
                            }
                        }
                    }
                }
            }
        }
    }
    v
}

/// Reduced grid for longer inputs (SUBGRID).
pub fn subgrid(dicts: &[u32]) -> Vec<Opts> {
    let mut v = vec![];
    for &dict in dicts {
        for &(lc, lp, pb) in &[(3u32, 0u32, 2u32), (0, 4, 4), (4, 0, 0)] {
            for &nice in &[8u32, 273] {
                for &fast in &[true, false] {
                    for &bt4 in &[false, true] {
                        v.push(Opts { dict, lc, lp, pb, fast, bt4, nice, depth: 0 });
                    }
                }
            }
        }
    }
    v
}

/// A handful of option vectors that cover both modes and both finders (for expensive inputs).
pub fn minigrid(dicts: &[u32]) -> Vec<Opts> {
    let mut v = vec![];
    for &dict in dicts {
        v.push(Opts { dict, lc: 3, lp: 0, pb: 2, fast: true, bt4: false, nice: 32, depth: 0 });
        v.push(Opts { dict, lc: 3, lp: 0, pb: 2, fast: false, bt4: true, nice: 64, depth: 0 });
        v.push(Opts { dict, lc: 0, lp: 4, pb: 4, fast: true, bt4: true, nice: 273, depth: 4 });
        v.push(Opts { dict, lc: 4, lp: 0, pb: 0, fast: false, bt4: false, nice: 8, depth: 0 });
    }
    v
}

pub fn dict_class(d: u32) -> &'static str {
    if d < 65536 {
        "lt64k"
    } else {
        "ge64k"
    }
}

#[derive(Clone, Debug, PartialEq, Eq)]
pub enum RtOutcome {
    Ok { comp_len: usize },
    /// the writer returned an error (text)
    EncodeErr(String),
    Violation,
}

/// Encode with `ops`, decode with the crate's matching reader, compare. Reports violations.
/// `expect_encode_ok`: an `Err` from the writer is itself a violation (in-range options).
#[allow(clippy::too_many_arguments)]
pub fn round_trip(
    rep: &Report,
    case: &dyn Fn() -> String,
    attrs: &[(&str, String)],
    c: &Container,
    o: &Opts,
    input: &[u8],
    ops: &[Op],
    expect_encode_ok: bool,
) -> (RtOutcome, Option<Vec<u8>>) {
    let mk = |kind: &str, site: String, detail: String| {
        let mut v = Violation::new(kind, site, case()).detail(detail);
        for (k, val) in attrs {
            v = v.attr(k, val);
        }
        v
    };
    let enc = catch(|| codec::encode(c, o, input, ops));
    let comp = match enc {
        Err(p) => {
            rep.violation(mk("panic", format!("encode: {}", p.site()), format!("{}:{} {}", p.file, p.line, p.msg)));
            return (RtOutcome::Violation, None);
        }
        Ok(Err(e)) => {
            if expect_encode_ok {
                rep.violation(mk("encode-error", format!("{:?}: {}", e.kind(), mc_core::run::normalise(&e.to_string())), e.to_string()));
                return (RtOutcome::Violation, None);
            }
            return (RtOutcome::EncodeErr(e.to_string()), None);
        }
        Ok(Ok(v)) => v,
    };
    let dec = catch(|| codec::decode(c, o, &comp, input.len()));
    match dec {
        Err(p) => {
            rep.violation(mk(
                "panic",
                format!("decode: {}", p.site()),
                format!("{}:{} {} | comp={}", p.file, p.line, p.msg, brief(&comp)),
            ));
            (RtOutcome::Violation, Some(comp))
        }
        Ok(Err(e)) => {
            rep.violation(mk(
                "undecodable",
                format!("{:?}: {}", e.kind(), mc_core::run::normalise(&e.to_string())),
                format!("own reader rejects own stream: {e} | comp={}", brief(&comp)),
            ));
            (RtOutcome::Violation, Some(comp))
        }
        Ok(Ok(out)) => {
            if out != input {
                let first = out.iter().zip(input.iter()).position(|(a, b)| a != b).unwrap_or(out.len().min(input.len()));
                rep.violation(mk(
                    "wrong-bytes",
                    "round trip differs".to_string(),
                    format!("in_len={} out_len={} first_diff={} comp={}", input.len(), out.len(), first, brief(&comp)),
                ));
                (RtOutcome::Violation, Some(comp))
            } else {
                (RtOutcome::Ok { comp_len: comp.len() }, Some(comp))
            }
        }
    }
}

/// Flush the calling thread's coverage counters into the report.
pub fn flush_cov(rep: &Report) {
    let c = cov::take();
    let items: Vec<(String, u64)> =
        cov::NAMES.iter().enumerate().map(|(i, n)| (format!("cov.{n}"), c[i])).collect();
    let refs: Vec<(&str, u64)> = items.iter().map(|(k, v)| (k.as_str(), *v)).collect();
    rep.add_many(&refs);
}

pub fn hash_desc(s: &str) -> u64 {
    fnv(s.as_bytes())
}

/// Walk an LZMA2 stream: returns (control bytes of all chunks, total uncompressed size,
/// offset just after the 0x00 terminator) or None if malformed/truncated.
pub fn walk_lzma2(data: &[u8]) -> Option<(Vec<u8>, u64, usize)> {
    let mut i = 0;
    let mut ctrls = vec![];
    let mut total = 0u64;
    loop {
        let c = *data.get(i)?;
        i += 1;
        if c == 0 {
            return Some((ctrls, total, i));
        }
        ctrls.push(c);
        if c >= 0x80 {
            let h = data.get(i..i + 4)?;
            let un = (((c & 0x1F) as u64) << 16) + u16::from_be_bytes([h[0], h[1]]) as u64 + 1;
            let cs = u16::from_be_bytes([h[2], h[3]]) as usize + 1;
            i += 4;
            if c >= 0xC0 {
                i += 1;
            }
            data.get(i..i + cs)?;
            i += cs;
            total += un;
        } else if c <= 2 {
            let h = data.get(i..i + 2)?;
            let n = u16::from_be_bytes([h[0], h[1]]) as usize + 1;
            i += 2;
            data.get(i..i + n)?;
            i += n;
            total += n as u64;
        } else {
            return None;
        }
    }
}
