//! C14 (in-process part) — twin functions agree: scalar / SSE4.1 / AVX2 position normalisation on
//! all element values and alignments, and the assembly vs portable `decode_direct_bits`.
//! (The four-build transcript comparison is driven by ./check with the mc-cfg binary.)

use crate::common::*;
use lzma_rust2::verif::diff;
use mc_core::gen;
use mc_core::report::hex;
use mc_core::run::{catch, par_for_with, Cli};
use mc_core::{Report, Violation};
use serde_json::json;

fn expected(p: i32, off: i32) -> i32 {
    (p as i64 - off as i64).max(0).min(i32::MAX as i64) as i32
}

pub fn run(cli: &Cli, rep: &Report) {
    rep.rule(
        "(1) normalize: variants scalar/SSE4.1/AVX2/dispatcher on every slice of length 0..=33 at every start alignment 0..=15 (in i32 words inside a 64-byte aligned buffer), every position holding every value of \
         {i32::MIN,-1,0,1,off-1,off,off+1,i32::MAX} while the others hold a fixed pattern, plus the full product of values for lengths <= 4, x offset in {1,4097,0x7FFFEFFE,i32::MAX}; oracle max(p-off,0) and mutual agreement; \
         (2) decode_direct_bits through the buffer reader (assembly with `optimization`) vs the stream reader (portable): count 1..=26 x every tail over {00,61,FF} of length 0..=4 x boundary (range, code) pairs with code < range; \
         result, range, code, bytes consumed and 'finished' must agree; non-trivial = the slice is non-empty / the run needed at least one normalisation byte",
    );
    rep.assumption("x86_64 with AVX2 and SSE4.1 available on this CPU (checked at run time; NEON/aarch64 assembly cannot execute here)");

    // ---------------- (1) normalize
    let offsets = [1i32, 4097, 0x7FFF_EFFE, i32::MAX];
    let mut jobs: Vec<(usize, usize, i32)> = vec![];
    for len in 0..=33usize {
        for align in 0..16usize {
            for &off in &offsets {
                jobs.push((len, align, off));
            }
        }
    }
    let avail: Vec<u32> = (0..4).filter(|k| diff::normalize(*k, &mut [0i32; 1], 1)).collect();
    rep.extra("normalize_variants_available", json!(avail));
    if !avail.contains(&1) || !avail.contains(&2) {
        rep.assumption("WARNING: SSE4.1 or AVX2 not available on this CPU: those variants were not compared");
    }
    par_for_with(
        jobs.len(),
        0,
        |_| (0u64, Vec::<u64>::new()),
        |st, ji| {
            let (len, align, off) = jobs[ji];
            let values = [i32::MIN, -1, 0, 1, off.wrapping_sub(1), off, off.wrapping_add(1), i32::MAX];
            // 64-byte aligned backing store: 16 words of slack + data
            let mut backing = vec![0i32; 16 + 64 + 16];
            let base_addr = backing.as_ptr() as usize;
            let skew = ((64 - (base_addr % 64)) % 64) / 4;
            let start = skew + align;
            let mut check = |data: &[i32], what: &dyn Fn() -> String| {
                st.0 += 1;
                let want: Vec<i32> = data.iter().map(|p| expected(*p, off)).collect();
                for &kind in &avail {
                    let slice = &mut backing[start..start + len];
                    slice.copy_from_slice(data);
                    let r = catch(|| diff::normalize(kind, &mut backing[start..start + len], off));
                    let got = backing[start..start + len].to_vec();
                    let name = ["scalar", "sse4.1", "avx2", "dispatcher"][kind as usize];
                    match r {
                        Err(p) => rep.violation(Violation::new("panic", p.site(), what()).attr("twin", "normalize").attr("variant", name).detail(p.msg)),
                        Ok(_) => {
                            if got != want {
                                let i = got.iter().zip(want.iter()).position(|(a, b)| a != b).unwrap();
                                rep.violation(
                                    Violation::new("twin-divergence", format!("normalize variant {name} differs from max(p - offset, 0)"), what())
                                        .attr("twin", "normalize")
                                        .attr("variant", name)
                                        .detail(format!("element {i}: input {} offset {off}: got {} want {}", data[i], got[i], want[i])),
                                );
                            }
                        }
                    }
                }
            };
            let pattern: Vec<i32> = (0..len).map(|i| off.wrapping_add(i as i32 * 7 - 20)).collect();
            for pos in 0..len {
                for v in values {
                    let mut d = pattern.clone();
                    d[pos] = v;
                    let what = || format!("C14|normalize|len{len}|align{align}|off{off}|pos{pos}={v}");
                    if !cli.selected_with(what) {
                        continue;
                    }
                    check(&d, &what);
                    if len > 0 {
                        st.1.push(hash_desc(&what()));
                    }
                }
            }
            if len <= 4 {
                let n = values.len().pow(len as u32);
                for idx in 0..n {
                    let mut d = vec![0i32; len];
                    let mut x = idx;
                    for e in d.iter_mut() {
                        *e = values[x % values.len()];
                        x /= values.len();
                    }
                    let what = || format!("C14|normalize|len{len}|align{align}|off{off}|all{idx}");
                    if !cli.selected_with(what) {
                        continue;
                    }
                    check(&d, &what);
                    if len > 0 {
                        st.1.push(hash_desc(&what()));
                    }
                }
            }
        },
        |st| {
            rep.add_many(&[("evaluations", st.0), ("normalize_slices", st.0)]);
            rep.nontrivial_many(&st.1);
        },
    );

    // ---------------- (2) direct bits: asm vs portable
    // Reachable decoder states only: after a bit decode the range is at least 2^13 * 31 > 2^17, so a
    // single normalisation step always restores range >= 2^24 (smaller values cannot occur).
    let ranges: [u32; 10] = [0x0002_0000, 0x0003_FFFF, 0x0080_0000, 0x00FF_FFFF, 0x0100_0000, 0x0100_0001, 0x7FFF_FFFF, 0x8000_0000, 0xFFFF_FFFE, 0xFFFF_FFFF];
    let mut tails: Vec<Vec<u8>> = vec![];
    for i in 0..gen::micro_count(3, 4) {
        tails.push(gen::micro_nth(&A3, i));
    }
    let mut djobs: Vec<(u32, u32, usize)> = vec![];
    for &r in &ranges {
        let mut codes: Vec<u32> = vec![0, 1, r / 2, (r / 2).saturating_sub(1), r - 1, r.saturating_sub(2)];
        codes.retain(|c| *c < r);
        codes.sort_unstable();
        codes.dedup();
        for c in codes {
            for t in 0..tails.len() {
                djobs.push((r, c, t));
            }
        }
    }
    rep.extra("direct_bits", json!({"ranges": ranges.len(), "tails": tails.len(), "jobs": djobs.len(), "counts": 26}));
    par_for_with(
        djobs.len(),
        0,
        |_| (0u64, Vec::<u64>::new()),
        |st, ji| {
            let (range, code, t) = djobs[ji];
            let tail = &tails[t];
            for count in 1..=26u32 {
                let what = || format!("C14|direct_bits|range{range:08x}|code{code:08x}|tail{}|count{count}", hex(tail));
                if !cli.selected_with(what) {
                    continue;
                }
                st.0 += 1;
                match catch(|| diff::direct_bits(range, code, tail, count)) {
                    Err(p) => rep.violation(Violation::new("panic", p.site(), what()).attr("twin", "direct_bits").attr("variant", "-").detail(p.msg)),
                    Ok((a, b)) => {
                        let overread = b.3 > tail.len();
                        if a != b {
                            rep.violation(
                                Violation::new("twin-divergence", "assembly decode_direct_bits differs from the portable implementation", what())
                                    .attr("twin", "direct_bits")
                                    .attr("variant", if overread { "reads-past-end" } else { "in-bounds" })
                                    .detail(format!("(result, range, code, consumed, finished): buffer/asm {:?} vs stream/portable {:?}", a, b)),
                            );
                        } else if b.3 > 0 {
                            st.1.push(hash_desc(&what()));
                        }
                    }
                }
            }
        },
        |st| {
            rep.add_many(&[("evaluations", st.0), ("direct_bits_runs", st.0)]);
            rep.nontrivial_many(&st.1);
            flush_cov(rep);
        },
    );
    rep.sample(json!({"normalize": "len 9, align 3, offset 4097, element 4 = i32::MIN"}));
    rep.sample(json!({"direct_bits": "range 00ffffff code 0 tail 61ff count 17"}));
}
