//! C04 — corrupted XZ/LZIP input is never returned as valid different data (fault enumeration
//! over single-fault mutants of a small corpus, byte-level and structure-aware).

use crate::codec::{self, Container};
use crate::common::*;
use crate::corpus::{self, Item};
use lzma_rust2::{LZIPReader, XZReader};
use mc_core::gen;
use mc_core::report::{brief, hex};
use mc_core::run::{catch, par_for_with, Cli};
use mc_core::{Report, Violation};
use serde_json::json;

#[derive(Clone, Copy, Debug, PartialEq, Eq)]
pub enum Rd {
    XzMulti,
    XzSingle,
    Lzip,
}

/// Decode `bytes` with the reader; Ok(content) / Err(kind text) / panic is reported by caller.
pub fn decode_with(rd: Rd, bytes: &[u8], limit: usize) -> std::io::Result<Vec<u8>> {
    match rd {
        Rd::XzMulti => {
            let mut r = XZReader::new(bytes, true);
            codec::read_all(&mut r, 1 << 15, limit)
        }
        Rd::XzSingle => {
            let mut r = XZReader::new(bytes, false);
            codec::read_all(&mut r, 1 << 15, limit)
        }
        Rd::Lzip => {
            let mut r = LZIPReader::new(bytes)?;
            codec::read_all(&mut r, 1 << 15, limit)
        }
    }
}

const CRC32_POLY: u32 = 0xEDB88320;
pub fn crc32(data: &[u8]) -> u32 {
    let mut c = !0u32;
    for b in data {
        c ^= *b as u32;
        for _ in 0..8 {
            c = if c & 1 != 0 { (c >> 1) ^ CRC32_POLY } else { c >> 1 };
        }
    }
    !c
}

pub fn crc64(data: &[u8]) -> u64 {
    const POLY: u64 = 0xC96C_5795_D787_0F42;
    let mut c = !0u64;
    for b in data {
        c ^= *b as u64;
        for _ in 0..8 {
            c = if c & 1 != 0 { (c >> 1) ^ POLY } else { c >> 1 };
        }
    }
    !c
}

/// LZIP member boundaries (start, end) by walking the trailers backwards.
pub fn lzip_members(file: &[u8]) -> Vec<(usize, usize)> {
    let mut v = vec![];
    let mut end = file.len();
    while end >= 26 {
        let ms = u64::from_le_bytes(file[end - 8..end].try_into().unwrap()) as usize;
        if ms < 26 || ms > end {
            break;
        }
        v.push((end - ms, end));
        end -= ms;
    }
    v.reverse();
    v
}

/// Structure of a single-stream XZ file written by the crate or by liblzma (no stream padding).
pub struct XzLayout {
    /// (header start, header len, data end incl. padding + check)
    pub blocks: Vec<(usize, usize, usize)>,
    pub index_start: usize,
    pub index_len: usize,
    pub footer_start: usize,
}

pub fn xz_layout(f: &[u8]) -> Option<XzLayout> {
    if f.len() < 32 || f[..6] != [0xFD, b'7', b'z', b'X', b'Z', 0] {
        return None;
    }
    let footer_start = f.len() - 12;
    let backward = u32::from_le_bytes(f[footer_start + 4..footer_start + 8].try_into().ok()?) as usize;
    let index_len = (backward + 1) * 4;
    let index_start = footer_start.checked_sub(index_len)?;
    if f[index_start] != 0 {
        return None;
    }
    // parse index records
    let mut p = index_start + 1;
    let rd = |p: &mut usize| -> Option<u64> {
        let mut v = 0u64;
        let mut sh = 0;
        loop {
            let b = *f.get(*p)?;
            *p += 1;
            v |= ((b & 0x7F) as u64) << sh;
            sh += 7;
            if b & 0x80 == 0 {
                return Some(v);
            }
            if sh > 63 {
                return None;
            }
        }
    };
    let n = rd(&mut p)?;
    let mut blocks = vec![];
    let mut pos = 12usize;
    for _ in 0..n {
        let unpadded = rd(&mut p)? as usize;
        let _unc = rd(&mut p)?;
        let hdr_len = (*f.get(pos)? as usize + 1) * 4;
        let total = unpadded.div_ceil(4) * 4;
        blocks.push((pos, hdr_len, pos + total));
        pos += total;
    }
    if pos != index_start {
        return None;
    }
    Some(XzLayout { blocks, index_start, index_len, footer_start })
}

fn fix_block_header_crc(f: &mut [u8], start: usize, len: usize) {
    let c = crc32(&f[start..start + len - 4]);
    f[start + len - 4..start + len].copy_from_slice(&c.to_le_bytes());
}

fn fix_index_crc(f: &mut [u8], l: &XzLayout) {
    let c = crc32(&f[l.index_start..l.index_start + l.index_len - 4]);
    f[l.index_start + l.index_len - 4..l.index_start + l.index_len].copy_from_slice(&c.to_le_bytes());
}

fn fix_footer_crc(f: &mut [u8], l: &XzLayout) {
    let c = crc32(&f[l.footer_start + 4..l.footer_start + 10]);
    f[l.footer_start..l.footer_start + 4].copy_from_slice(&c.to_le_bytes());
}

fn fix_stream_header_crc(f: &mut [u8]) {
    let c = crc32(&f[6..8]);
    f[8..12].copy_from_slice(&c.to_le_bytes());
}

/// A mutant: description + bytes.
pub struct Mutant {
    pub desc: String,
    pub class: &'static str,
    pub bytes: Vec<u8>,
}

pub const BOUNDARY_BYTES: [u8; 10] = [0x00, 0x01, 0x02, 0x03, 0x21, 0x40, 0x7F, 0x80, 0xE0, 0xFF];

/// Byte-level single-fault mutants of `f`. `payload_stride`: only every stride-th byte gets the
/// full treatment (1 = all), the first/last 64 bytes always do.
pub fn byte_mutants(f: &[u8], stride: usize, emit: impl FnMut(Mutant)) {
    byte_mutants_range(f, stride, 0, f.len(), emit)
}

/// As `byte_mutants`, restricted to positions in [lo, hi) (prefix/suffix insertions only with lo = 0),
/// so that the mutants of one large file can be spread over several workers.
pub fn byte_mutants_range(f: &[u8], stride: usize, lo: usize, hi: usize, mut emit: impl FnMut(Mutant)) {
    let n = f.len();
    for i in lo..hi.min(n) {
        let full = stride <= 1 || i < 64 || i + 64 >= n || i % stride == 0;
        if !full {
            continue;
        }
        for bit in 0..8 {
            let mut m = f.to_vec();
            m[i] ^= 1 << bit;
            emit(Mutant { desc: format!("flip@{i}.{bit}"), class: "bitflip", bytes: m });
        }
        for v in [0x00u8, 0xFF, f[i].wrapping_add(1)] {
            if v != f[i] && (v ^ f[i]).count_ones() > 1 {
                let mut m = f.to_vec();
                m[i] = v;
                emit(Mutant { desc: format!("sub@{i}={v:02x}"), class: "substitute", bytes: m });
            }
        }
        for k in [1usize, 2, 3, 4, 8] {
            if i + k <= n {
                let mut m = f[..i].to_vec();
                m.extend_from_slice(&f[i + k..]);
                emit(Mutant { desc: format!("del@{i}+{k}"), class: "delete", bytes: m });
                let mut m = f[..i + k].to_vec();
                m.extend_from_slice(&f[i..]);
                emit(Mutant { desc: format!("dup@{i}+{k}"), class: "duplicate", bytes: m });
            }
            if i + 2 * k <= n && f[i..i + k] != f[i + k..i + 2 * k] {
                let mut m = f.to_vec();
                let (a, b) = m[i..i + 2 * k].split_at_mut(k);
                a.swap_with_slice(b);
                emit(Mutant { desc: format!("swap@{i}+{k}"), class: "transpose", bytes: m });
            }
        }
        for v in [0x00u8, 0xFF] {
            let mut m = f[..i].to_vec();
            m.push(v);
            m.extend_from_slice(&f[i..]);
            emit(Mutant { desc: format!("ins@{i}={v:02x}"), class: "insert", bytes: m });
        }
    }
    for t in lo..hi.min(n) {
        if stride > 1 && !(t < 64 || t + 64 >= n || t % stride == 0) {
            continue;
        }
        emit(Mutant { desc: format!("trunc@{t}"), class: "truncate", bytes: f[..t].to_vec() });
        // region overwrites ("zeroed sectors"): everything before t, everything from t on, and the 4..32 bytes at t
        for v in [0x00u8, 0xFF] {
            if t > 0 && f[..t].iter().any(|b| *b != v) {
                let mut m = f.to_vec();
                m[..t].fill(v);
                emit(Mutant { desc: format!("fill{v:02x}@0..{t}"), class: "overwrite", bytes: m });
            }
            if f[t..].iter().any(|b| *b != v) {
                let mut m = f.to_vec();
                m[t..].fill(v);
                emit(Mutant { desc: format!("fill{v:02x}@{t}.."), class: "overwrite", bytes: m });
            }
        }
        for k in [4usize, 8, 12, 16, 32] {
            if t + k <= n && f[t..t + k].iter().any(|b| *b != 0) {
                let mut m = f.to_vec();
                m[t..t + k].fill(0);
                emit(Mutant { desc: format!("fill00@{t}+{k}"), class: "overwrite", bytes: m });
            }
        }
    }
    if lo != 0 {
        return;
    }
    for (name, ins) in [("00", vec![0u8]), ("ff", vec![0xFF]), ("xzmagic", vec![0xFD, b'7', b'z', b'X', b'Z', 0]), ("lzipmagic", b"LZIP".to_vec()), ("0000", vec![0; 4])] {
        let mut m = ins.clone();
        m.extend_from_slice(f);
        emit(Mutant { desc: format!("prefix:{name}"), class: "insert", bytes: m });
        let mut m = f.to_vec();
        m.extend_from_slice(&ins);
        emit(Mutant { desc: format!("suffix:{name}"), class: "append", bytes: m });
    }
}

/// Structure-aware mutants with the enclosing CRC32 recomputed so the damage reaches deep parsing.
pub fn structured_mutants(item: &Item, mut emit: impl FnMut(Mutant)) {
    let f = &item.bytes;
    match item.cont {
        Container::Xz { .. } => {
            let Some(l) = xz_layout(f) else { return };
            // stream flags
            for v in 0..=15u8 {
                for idx in [6usize, 7] {
                    if f[idx] != v {
                        let mut m = f.clone();
                        m[idx] = v;
                        fix_stream_header_crc(&mut m);
                        emit(Mutant { desc: format!("xz:streamflag[{idx}]={v}+crc"), class: "field+crc", bytes: m });
                        // same flag in the footer as well (consistent header/footer)
                        let mut m2 = f.clone();
                        m2[idx] = v;
                        fix_stream_header_crc(&mut m2);
                        m2[l.footer_start + 8 + (idx - 6)] = v;
                        fix_footer_crc(&mut m2, &l);
                        emit(Mutant { desc: format!("xz:streamflag[{idx}]={v}+footer+crc"), class: "field+crc", bytes: m2 });
                    }
                }
            }
            // The last LZMA2 chunk's uncompressed size lowered by k, with *everything* that is computed from the content made
            // consistent with the shortened content (block check, index record, index CRC): only the LZMA data itself now
            // says more than its chunk header. Single block, no sizes in the block header, CRC32 or CRC64 check.
            if l.blocks.len() == 1 && f[7] != 0x0A {
                let (hs, hl, _) = l.blocks[0];
                let check_len = match f[7] {
                    0x01 => 4usize,
                    0x04 => 8,
                    _ => 0,
                };
                if check_len != 0 && f[hs + 1] & 0xC0 == 0 {
                    // index: 00, count=1, unpadded, uncompressed
                    let mut p = l.index_start + 2;
                    let rd = |p: &mut usize| -> u64 {
                        let mut v = 0u64;
                        let mut sh = 0;
                        loop {
                            let b = f[*p];
                            *p += 1;
                            v |= ((b & 0x7F) as u64) << sh;
                            sh += 7;
                            if b & 0x80 == 0 {
                                return v;
                            }
                        }
                    };
                    let unpadded = rd(&mut p) as usize;
                    let unc_pos = p;
                    let unc = rd(&mut p) as usize;
                    let unc_vli_len = p - unc_pos;
                    let data_start = hs + hl;
                    let comp_len = unpadded - hl - check_len;
                    let data = &f[data_start..data_start + comp_len];
                    // walk the chunks; remember the last LZMA chunk's header position
                    let mut i = 0usize;
                    let mut last: Option<(usize, usize)> = None; // (offset of the control byte, its uncompressed size)
                    let mut ok = true;
                    while i < data.len() && data[i] != 0 {
                        let c = data[i];
                        if c >= 0x80 {
                            if i + 5 > data.len() {
                                ok = false;
                                break;
                            }
                            let un = (((c & 0x1F) as usize) << 16) + u16::from_be_bytes([data[i + 1], data[i + 2]]) as usize + 1;
                            let cs = u16::from_be_bytes([data[i + 3], data[i + 4]]) as usize + 1;
                            last = Some((i, un));
                            i += 5 + if c >= 0xC0 { 1 } else { 0 } + cs;
                        } else {
                            if i + 3 > data.len() {
                                ok = false;
                                break;
                            }
                            last = None;
                            i += 3 + u16::from_be_bytes([data[i + 1], data[i + 2]]) as usize + 1;
                        }
                    }
                    if let (true, Some((ci, un)), true) = (ok, last, unc == item.input.len()) {
                        for k in [1usize, 2, 3, 7] {
                            if un <= k || unc <= k {
                                continue;
                            }
                            // the new uncompressed size must need as many multibyte-integer bytes as the old one
                            let vli_len = |v: usize| if v == 0 { 1 } else { (usize::BITS - v.leading_zeros()).div_ceil(7) as usize };
                            if vli_len(unc - k) != unc_vli_len {
                                continue;
                            }
                            let mut m = f.clone();
                            let nu = un - k - 1;
                            let c = m[data_start + ci];
                            m[data_start + ci] = (c & 0xE0) | ((nu >> 16) as u8 & 0x1F);
                            m[data_start + ci + 1] = (nu >> 8) as u8;
                            m[data_start + ci + 2] = nu as u8;
                            // block check over the shortened content
                            let content = &item.input[..unc - k];
                            let check_pos = data_start + comp_len.div_ceil(4) * 4;
                            if check_len == 4 {
                                m[check_pos..check_pos + 4].copy_from_slice(&crc32(content).to_le_bytes());
                            } else {
                                m[check_pos..check_pos + 8].copy_from_slice(&crc64(content).to_le_bytes());
                            }
                            // index record and index CRC
                            let mut v = unc - k;
                            for j in 0..unc_vli_len {
                                let more = j + 1 < unc_vli_len;
                                m[unc_pos + j] = (v & 0x7F) as u8 | if more { 0x80 } else { 0 };
                                v >>= 7;
                            }
                            let crc_pos = l.index_start + l.index_len - 4;
                            let c = crc32(&m[l.index_start..crc_pos]);
                            m[crc_pos..crc_pos + 4].copy_from_slice(&c.to_le_bytes());
                            emit(Mutant { desc: format!("xz:last-chunk-size-{k}+all-checks"), class: "consistent-shorten", bytes: m });
                        }
                    }
                }
            }
            // every byte of every block header to boundary values, header CRC fixed
            for (bi, (hs, hl, _)) in l.blocks.iter().enumerate() {
                for off in 0..hl - 4 {
                    for v in BOUNDARY_BYTES {
                        if f[hs + off] != v {
                            let mut m = f.clone();
                            m[hs + off] = v;
                            if off == 0 {
                                // the size byte changes where the CRC is expected; fix at the new place if inside the file
                                let nl = (v as usize + 1) * 4;
                                if v != 0 && hs + nl <= m.len() {
                                    fix_block_header_crc(&mut m, *hs, nl);
                                }
                            } else {
                                fix_block_header_crc(&mut m, *hs, *hl);
                            }
                            emit(Mutant { desc: format!("xz:blk{bi}hdr[{off}]={v:02x}+crc"), class: "field+crc", bytes: m });
                        }
                    }
                }
            }
            // index bytes to boundary values with index CRC fixed
            for off in 0..l.index_len - 4 {
                for v in BOUNDARY_BYTES {
                    if f[l.index_start + off] != v {
                        let mut m = f.clone();
                        m[l.index_start + off] = v;
                        fix_index_crc(&mut m, &l);
                        emit(Mutant { desc: format!("xz:index[{off}]={v:02x}+crc"), class: "field+crc", bytes: m });
                    }
                }
            }
            // footer: backward size and flags with CRC fixed
            for off in 4..10 {
                for v in BOUNDARY_BYTES {
                    if f[l.footer_start + off] != v {
                        let mut m = f.clone();
                        m[l.footer_start + off] = v;
                        fix_footer_crc(&mut m, &l);
                        emit(Mutant { desc: format!("xz:footer[{off}]={v:02x}+crc"), class: "field+crc", bytes: m });
                    }
                }
            }
            // every run of whole blocks [j, k) removed with index and footer kept: the index then lists more blocks than
            // the stream holds (all blocks removed, the trailing ones removed, one in the middle removed)
            for j in 0..l.blocks.len() {
                for k in j + 1..=l.blocks.len() {
                    if l.blocks.len() >= 2 && j == 0 && k == 1 {
                        continue; // = xz:drop-block0 below
                    }
                    let mut m = f[..l.blocks[j].0].to_vec();
                    m.extend_from_slice(&f[l.blocks[k - 1].2..]);
                    emit(Mutant { desc: format!("xz:drop-blocks{j}..{k}"), class: "block-edit", bytes: m });
                }
            }
            // the last block duplicated (index lists fewer blocks than the stream holds)
            if let Some(&(s, _, e)) = l.blocks.last() {
                let mut m = f[..e].to_vec();
                m.extend_from_slice(&f[s..]);
                emit(Mutant { desc: "xz:dup-last-block".into(), class: "block-edit", bytes: m });
            }
            // drop / duplicate / swap whole blocks, index kept (and index rebuilt is not attempted)
            if l.blocks.len() >= 2 {
                let (s0, _, e0) = l.blocks[0];
                let (s1, _, e1) = l.blocks[1];
                let mut m = f[..s0].to_vec();
                m.extend_from_slice(&f[e0..]);
                emit(Mutant { desc: "xz:drop-block0".into(), class: "block-edit", bytes: m });
                let mut m = f[..e0].to_vec();
                m.extend_from_slice(&f[s0..]);
                emit(Mutant { desc: "xz:dup-block0".into(), class: "block-edit", bytes: m });
                // swapping two blocks is only detectable (through the index) when their sizes differ
                if e0 - s0 != e1 - s1 {
                    let mut m = f[..s0].to_vec();
                    m.extend_from_slice(&f[s1..e1]);
                    m.extend_from_slice(&f[s0..e0]);
                    m.extend_from_slice(&f[e1..]);
                    emit(Mutant { desc: "xz:swap-block0-1".into(), class: "block-edit", bytes: m });
                }
            }
        }
        Container::Lzip { .. } => {
            let ms = lzip_members(f);
            for (mi, (s, e)) in ms.iter().enumerate() {
                for v in 0..=255u8 {
                    for off in [4usize, 5] {
                        if f[s + off] != v {
                            let mut m = f.clone();
                            m[s + off] = v;
                            emit(Mutant { desc: format!("lzip:m{mi}hdr[{off}]={v:02x}"), class: "field", bytes: m });
                        }
                    }
                }
                // trailer fields to boundary values
                for (name, off, len) in [("crc", e - 20, 4usize), ("datasize", e - 16, 8), ("membersize", e - 8, 8)] {
                    for val in [0u64, 1, 25, 26, (e - s) as u64 - 1, (e - s) as u64 + 1, f.len() as u64, 1 << 32, 1 << 63, u64::MAX] {
                        let mut m = f.clone();
                        let b = val.to_le_bytes();
                        if m[off..off + len] != b[..len] {
                            m[off..off + len].copy_from_slice(&b[..len]);
                            emit(Mutant { desc: format!("lzip:m{mi}{name}={val}"), class: "field", bytes: m });
                        }
                    }
                }
            }
            // Dropping, duplicating or swapping whole members yields another well-formed LZIP file
            // (every member is self-contained); no reader can tell, so these are not mutants here.
        }
        _ => {}
    }
}

pub fn c04_items() -> Vec<Item> {
    corpus::small()
        .into_iter()
        .filter(|it| match &it.cont {
            Container::Xz { check, .. } => *check != 0,
            Container::Lzip { .. } => true,
            _ => false,
        })
        .collect()
}

/// The LZIP format's own tolerance: `Ok(prefix)` where prefix is the content of the first j >= 1
/// members, those members are byte-identical to the original's and what follows does not start
/// with the member magic.
fn lzip_prefix_ok(orig: &Item, members: &[(usize, usize)], member_content_ends: &[usize], mutated: &[u8], out: &[u8]) -> bool {
    for (j, (_, e)) in members.iter().enumerate() {
        if *e <= mutated.len() && mutated[..*e] == orig.bytes[..*e] && out == &orig.input[..member_content_ends[j]] {
            let rest = &mutated[*e..];
            if rest.len() < 4 || &rest[..4] != b"LZIP" {
                return true;
            }
        }
    }
    false
}

/// LZIPReaderMT over the same LZIP mutants, in isolated child processes (real threads: a hang or
/// a crash is attributed to the mutant in flight by the watchdog instead of stalling the check).
pub struct MtMutants {
    items: Vec<Item>,
    /// (item index, description, class, bytes)
    mutants: Vec<(usize, String, &'static str, Vec<u8>)>,
}

impl MtMutants {
    fn build() -> Self {
        let items: Vec<Item> = c04_items().into_iter().filter(|it| matches!(it.cont, Container::Lzip { .. })).collect();
        let mut mutants = vec![];
        for (ii, it) in items.iter().enumerate() {
            let mut add = |m: Mutant| {
                if m.bytes != it.bytes {
                    mutants.push((ii, m.desc, m.class, m.bytes));
                }
            };
            byte_mutants(&it.bytes, 1, &mut add);
            structured_mutants(it, &mut add);
        }
        MtMutants { items, mutants }
    }
}

impl crate::iso::IsoCheck for MtMutants {
    fn n_cases(&self) -> usize {
        self.mutants.len()
    }
    fn desc(&self, i: usize) -> String {
        let (ii, d, _, _) = &self.mutants[i];
        format!("C04|{}|LzipMt|{}", self.items[*ii].name, d)
    }
    fn attrs(&self, i: usize) -> Vec<(String, String)> {
        vec![("family".into(), "lzip".into()), ("reader".into(), "LzipMt".into()), ("mutation".into(), self.mutants[i].2.into()), ("foreign".into(), "false".into())]
    }
    fn run(&self, i: usize, rep: &Report) -> bool {
        let (ii, _, _, bytes) = &self.mutants[i];
        let it = &self.items[*ii];
        let members = lzip_members(&it.bytes);
        let mut ends = vec![];
        let mut acc = 0usize;
        for (_, e) in &members {
            acc += u64::from_le_bytes(it.bytes[e - 16..e - 8].try_into().unwrap()) as usize;
            ends.push(acc);
        }
        let limit = it.input.len() * 4 + (1 << 16);
        let r = catch(|| {
            let mut r = lzma_rust2::LZIPReaderMT::new(std::io::Cursor::new(bytes.as_slice()), 2)?;
            codec::read_all(&mut r, 1 << 15, limit)
        });
        let mk = |kind: &str, site: String, detail: String| {
            let mut v = Violation::new(kind, site, self.desc(i)).detail(detail);
            for (k, val) in self.attrs(i) {
                v = v.attr(&k, val);
            }
            rep.violation(v);
        };
        match r {
            Err(p) => {
                mk("panic", p.site(), format!("{}:{} {}", p.file, p.line, p.msg));
                false
            }
            Ok(Err(_)) => true,
            Ok(Ok(out)) => {
                if out == it.input || lzip_prefix_ok(it, &members, &ends, bytes, &out) {
                    true
                } else {
                    mk(
                        "accepted-corruption",
                        if out.is_empty() { "accepted as an empty file".into() } else { "accepted with different, missing or extra data".into() },
                        format!("original {} bytes, LZIPReaderMT returned Ok with {} bytes | mutant file={}", it.input.len(), out.len(), brief(bytes)),
                    );
                    false
                }
            }
        }
    }
}

pub fn run(cli: &Cli, rep: &Report) {
    if cli.args.iter().any(|a| a == "--child") {
        let check: &'static MtMutants = Box::leak(Box::new(MtMutants::build()));
        crate::iso::run_isolated(cli, rep, check);
        return;
    }
    let thorough = cli.thorough();
    rep.rule(
        "fault enumeration: for every file of a ~35-file corpus (XZ with CRC32/CRC64/SHA-256, 1-3 blocks, filters; LZIP with 1-3 members incl. an empty one; liblzma-made XZ) \
         every single-bit flip, byte substitution, region deletion/duplication/transposition (1,2,3,4,8 bytes), 1-byte insertion at every position, every truncation, prefix/suffix \
         insertions, and every header/index/footer/trailer field at its boundary values with the enclosing CRC32 recomputed; plus every byte string of length <= 2 and MICRO(A3,6) \
         as a whole file; each mutant is read by XZReader (multi- and single-stream) or LZIPReader, LZIP mutants additionally by LZIPReaderMT (2 workers, isolated child processes with a watchdog). A mutant is non-trivial when its bytes differ from the original file",
    );
    rep.assumption("medium files: full treatment for the first/last 64 bytes and every 97th byte in between (stated stride)");
    rep.assumption("LZIP tolerance applied exactly as the property states it (complete identical leading members followed by bytes not starting with the magic)");
    let items = {
        let mut v = c04_items();
        // single-block files whose last LZMA symbol is a 40-byte match (for the consistent-shortening mutants)
        {
            let o = crate::codec::Opts::small();
            let input = gen::build(&[gen::Seg::C(100), gen::Seg::D(30, 40)], 1);
            for check in [1u8, 4] {
                let cont = Container::Xz { check, block: None, filters: vec![] };
                if let Ok(bytes) = crate::codec::encode(&cont, &o, &input, &[]) {
                    v.push(Item { name: format!("xz-c{check}-endmatch"), cont, opts: o, input: input.clone(), bytes, foreign: false });
                }
            }
        }
        // two concatenated XZ streams (multi-stream reader only), with 0 and 4 bytes of stream padding between them:
        // the second stream's header, and the padding, are places no single-stream file has
        {
            let o = crate::codec::Opts::small();
            let a = gen::build(&[gen::Seg::C(150)], 1);
            let b = gen::build(&[gen::Seg::C(90)], 2);
            for (check, pad) in [(1u8, 0usize), (4, 4), (10, 8)] {
                let cont = Container::Xz { check, block: None, filters: vec![] };
                if let (Ok(sa), Ok(sb)) = (crate::codec::encode(&cont, &o, &a, &[]), crate::codec::encode(&cont, &o, &b, &[])) {
                    let mut bytes = sa.clone();
                    bytes.extend(std::iter::repeat(0u8).take(pad));
                    bytes.extend_from_slice(&sb);
                    let mut input = a.clone();
                    input.extend_from_slice(&b);
                    v.push(Item { name: format!("xz-2str-c{check}-pad{pad}:{}", sa.len()), cont, opts: o, input, bytes, foreign: false });
                }
            }
        }
        if thorough {
            v.extend(corpus::medium().into_iter().filter(|it| matches!(&it.cont, Container::Xz { check, .. } if *check != 0) || matches!(it.cont, Container::Lzip { .. })));
        }
        v
    };
    rep.extra("corpus", json!(items.iter().map(|i| format!("{} ({} bytes)", i.name, i.bytes.len())).collect::<Vec<_>>()));

    // work list: (item index, which part)
    let n = items.len();
    par_for_with(
        n * 2,
        1,
        |_| (0u64, Vec::<u64>::new()),
        |st, wi| {
            let it = &items[wi / 2];
            let structured = wi % 2 == 1;
            // (first stream length, its content length) of the two-stream files
            let two: Option<(usize, usize)> = it.name.strip_prefix("xz-2str-").and_then(|r| r.rsplit(':').next()).and_then(|n| n.parse().ok()).map(|n| (n, 150));
            let readers: &[Rd] = match it.cont {
                Container::Xz { .. } if two.is_some() => &[Rd::XzMulti],
                Container::Xz { .. } => &[Rd::XzMulti, Rd::XzSingle],
                _ => &[Rd::Lzip],
            };
            let members = if matches!(it.cont, Container::Lzip { .. }) { lzip_members(&it.bytes) } else { vec![] };
            // uncompressed end offset of each member
            let mut ends = vec![];
            {
                let mut acc = 0usize;
                for (s, e) in &members {
                    let ds = u64::from_le_bytes(it.bytes[e - 16..e - 8].try_into().unwrap()) as usize;
                    let _ = s;
                    acc += ds;
                    ends.push(acc);
                }
            }
            let limit = it.input.len() * 4 + (1 << 16);
            let stride = if it.bytes.len() > 4096 { 97 } else { 1 };
            let mut handle = |m: Mutant| {
                if m.bytes == it.bytes {
                    return;
                }
                for &rd in readers {
                    let case = || format!("C04|{}|{:?}|{}", it.name, rd, m.desc);
                    if !cli.selected_with(case) {
                        continue;
                    }
                    st.0 += 1;
                    st.1.push(mc_core::report::fnv(m.desc.as_bytes()) ^ ((wi as u64) << 48) ^ ((rd as u64) << 40));
                    let r = catch(|| decode_with(rd, &m.bytes, limit));
                    let attrs = |v: Violation| v.attr("family", it.cont.family()).attr("reader", format!("{rd:?}")).attr("mutation", m.class).attr("foreign", it.foreign.to_string());
                    match r {
                        Err(p) => rep.violation(attrs(Violation::new("panic", p.site(), case())).detail(format!("{}:{} {} | file={}", p.file, p.line, p.msg, brief(&m.bytes)))),
                        Ok(Err(_)) => {}
                        Ok(Ok(out)) => {
                            if out == it.input {
                                continue;
                            }
                            if rd == Rd::Lzip && lzip_prefix_ok(it, &members, &ends, &m.bytes, &out) {
                                continue;
                            }
                            if let Some((s1, c1)) = two {
                                // the first stream alone, plus stream padding of a multiple of four, is itself a complete file
                                let n = m.bytes.len();
                                if n >= s1 && (n - s1) % 4 == 0 && m.bytes[..s1] == it.bytes[..s1] && m.bytes[s1..].iter().all(|b| *b == 0) && out == it.input[..c1] {
                                    continue;
                                }
                            }
                            let what = if out.is_empty() {
                                "accepted as an empty file"
                            } else if out.len() < it.input.len() && it.input.starts_with(&out) {
                                "accepted with data missing"
                            } else if out.len() > it.input.len() && out.starts_with(&it.input) {
                                "accepted with extra data"
                            } else {
                                "accepted with different data"
                            };
                            rep.violation(attrs(Violation::new("accepted-corruption", what, case())).detail(format!(
                                "original {} bytes, reader returned Ok with {} bytes | mutant file={}",
                                it.input.len(),
                                out.len(),
                                brief(&m.bytes)
                            )));
                        }
                    }
                }
            };
            if structured {
                structured_mutants(it, &mut handle);
            } else {
                byte_mutants(&it.bytes, stride, &mut handle);
            }
        },
        |st| {
            rep.add("evaluations", st.0);
            rep.nontrivial_many(&st.1);
        },
    );

    // arbitrary short / micro byte strings as whole files
    let alpha7: [u8; 7] = [0x00, 0x4C, 0x5A, 0xFD, 0x37, 0x01, 0xFF];
    let mut whole: Vec<Vec<u8>> = vec![];
    for a in 0..=255u8 {
        whole.push(vec![a]);
    }
    for a in 0..=255u8 {
        for b in 0..=255u8 {
            whole.push(vec![a, b]);
        }
    }
    for i in 0..gen::micro_count(3, 6) {
        whole.push(gen::micro_nth(&A3, i));
    }
    for i in 0..gen::micro_count(7, if thorough { 7 } else { 5 }) {
        whole.push(gen::micro_nth(&alpha7, i));
    }
    // valid magic followed by micro strings
    for i in 0..gen::micro_count(3, 5) {
        let t = gen::micro_nth(&A3, i);
        let mut v = b"LZIP".to_vec();
        v.extend_from_slice(&t);
        whole.push(v);
        let mut v = vec![0xFD, b'7', b'z', b'X', b'Z', 0];
        v.extend_from_slice(&t);
        whole.push(v);
        let mut v = b"LZIP\x01\x0C".to_vec();
        v.extend_from_slice(&t);
        whole.push(v);
    }
    let nw = whole.len();
    rep.extra("whole_file_strings", json!(nw));
    par_for_with(
        nw,
        0,
        |_| (0u64, Vec::<u64>::new()),
        |st, i| {
            let f = &whole[i];
            if f.is_empty() {
                return;
            }
            for rd in [Rd::XzMulti, Rd::Lzip] {
                let case = || format!("C04|whole|{:?}|{}", rd, hex(f));
                if !cli.selected_with(case) {
                    continue;
                }
                st.0 += 1;
                st.1.push(mc_core::report::fnv(f) ^ ((rd as u64) << 56) ^ 0x5555);
                match catch(|| decode_with(rd, f, 1 << 16)) {
                    Err(p) => rep.violation(Violation::new("panic", p.site(), case()).attr("family", if rd == Rd::Lzip { "lzip" } else { "xz" }).attr("reader", format!("{rd:?}")).attr("mutation", "whole-file").detail(p.msg)),
                    Ok(Err(_)) => {}
                    Ok(Ok(out)) => rep.violation(
                        Violation::new("accepted-corruption", if out.is_empty() { "non-format bytes accepted as an empty file" } else { "non-format bytes accepted with data" }, case())
                            .attr("family", if rd == Rd::Lzip { "lzip" } else { "xz" })
                            .attr("reader", format!("{rd:?}"))
                            .attr("mutation", "whole-file")
                            .detail(format!("reader returned Ok with {} bytes for the {}-byte non-format input {}", out.len(), f.len(), hex(f))),
                    ),
                }
            }
        },
        |st| {
            rep.add("evaluations", st.0);
            rep.nontrivial_many(&st.1);
        },
    );
    // LZIPReaderMT over the LZIP mutants, isolated
    {
        let check: &'static MtMutants = Box::leak(Box::new(MtMutants::build()));
        rep.extra("lzip_mt_mutants", json!(check.mutants.len()));
        crate::iso::run_isolated(cli, rep, check);
    }
    if rep.n_samples() == 0 {
        rep.sample(json!({"file": items[0].name, "mutants": ["flip@0.0", "sub@5=ff", "del@12+4", "trunc@17", "xz:index[1]=ff+crc"]}));
        rep.sample(json!({"whole_file": "4c5a4950010c00"}));
    }
}
