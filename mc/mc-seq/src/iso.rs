//! Child-process isolation for cases that may abort, overflow the stack, exhaust memory or hang.
//!
//! The parent enumerates nothing itself: it starts K children of the same binary, child k runs
//! the cases with index i = k (mod K) in order. Before every case a child stores the case index
//! in a small progress file; violations are appended to a JSON-lines file as they occur. If a
//! child dies (signal, abort, allocation failure, stack overflow) or makes no progress for the
//! watchdog period, the parent attributes that to exactly the case in flight, records it, and
//! restarts the child after that case.

use mc_core::run::Cli;
use mc_core::{Report, Violation};
use serde_json::{json, Value};
use std::io::{Read, Seek, SeekFrom, Write};
use std::os::unix::process::ExitStatusExt;
use std::process::{Child, Command, Stdio};
use std::time::{Duration, Instant};

pub trait IsoCheck: Sync {
    fn n_cases(&self) -> usize;
    fn desc(&self, i: usize) -> String;
    /// run case i; report violations into `rep`; return true if the case was non-trivial
    fn run(&self, i: usize, rep: &Report) -> bool;
    /// attributes for a death/hang record of case i
    fn attrs(&self, i: usize) -> Vec<(String, String)>;
    /// a single allocation of `size` bytes (> 1 GiB) was refused in case i: is that what the
    /// case's parameters legitimately ask for (then it is inconclusive, not a violation)?
    fn huge_alloc_ok(&self, _i: usize, _size: u64) -> bool {
        false
    }
    /// case i legitimately needs more memory/time than the harness grants a child: a death or a
    /// hang of such a case is counted as inconclusive
    fn resource_heavy(&self, _i: usize) -> bool {
        false
    }
}

pub const WATCHDOG: Duration = Duration::from_secs(6);
/// largest single allocation a case may make (a 4 GiB dictionary fits, 2^63 does not)
pub const REQUEST_CAP: usize = 5 << 30;
/// progress value while a child is still building its case list
const STARTING: u64 = u64::MAX - 7;
const STARTUP_GRACE: Duration = Duration::from_secs(120);
const CHILD_STACK: usize = 8 << 20;

fn child_args(cli: &Cli) -> Option<(usize, usize, usize, String)> {
    // --child k/K --resume-from idx --dir <dir>
    let a = &cli.args;
    let pos = a.iter().position(|x| x == "--child")?;
    let (k, kk) = a.get(pos + 1)?.split_once('/')?;
    let resume = a.iter().position(|x| x == "--resume-from").and_then(|p| a.get(p + 1)).and_then(|s| s.parse().ok()).unwrap_or(0);
    let dir = a.iter().position(|x| x == "--dir").and_then(|p| a.get(p + 1)).cloned()?;
    Some((k.parse().ok()?, kk.parse().ok()?, resume, dir))
}

fn set_limits() {
    unsafe {
        // address space: the request cap below is the real guard; this one stops runaway growth
        let lim = libc::rlimit { rlim_cur: 40 << 30, rlim_max: 40 << 30 };
        libc::setrlimit(libc::RLIMIT_AS, &lim);
        let core = libc::rlimit { rlim_cur: 0, rlim_max: 0 };
        libc::setrlimit(libc::RLIMIT_CORE, &core);
    }
}

/// The progress record is a shared memory mapping of a small file: the child stores into it
/// without system calls, the parent reads the file.
static PROGRESS_PTR: std::sync::atomic::AtomicUsize = std::sync::atomic::AtomicUsize::new(0);

fn map_progress(f: &std::fs::File) {
    use std::os::fd::AsRawFd;
    let _ = f.set_len(32);
    let p = unsafe { libc::mmap(std::ptr::null_mut(), 32, libc::PROT_READ | libc::PROT_WRITE, libc::MAP_SHARED, f.as_raw_fd(), 0) };
    if p != libc::MAP_FAILED {
        PROGRESS_PTR.store(p as usize, std::sync::atomic::Ordering::SeqCst);
    }
}

/// Allocation-cap hook: record the size of the refused request in the progress record.
fn cap_hook(size: usize) {
    let p = PROGRESS_PTR.load(std::sync::atomic::Ordering::Relaxed);
    if p != 0 {
        unsafe { std::ptr::write_volatile((p as *mut u64).add(3), size as u64) };
    }
}

fn write_progress(f: &mut std::fs::File, idx: u64, done: u64, nontrivial: u64) {
    let p = PROGRESS_PTR.load(std::sync::atomic::Ordering::Relaxed);
    if p != 0 {
        unsafe {
            let q = p as *mut u64;
            std::ptr::write_volatile(q.add(1), done);
            std::ptr::write_volatile(q.add(2), nontrivial);
            std::ptr::write_volatile(q.add(3), 0);
            std::sync::atomic::fence(std::sync::atomic::Ordering::SeqCst);
            std::ptr::write_volatile(q, idx);
        }
        return;
    }
    let mut b = [0u8; 32];
    b[..8].copy_from_slice(&idx.to_le_bytes());
    b[8..16].copy_from_slice(&done.to_le_bytes());
    b[16..24].copy_from_slice(&nontrivial.to_le_bytes());
    let _ = f.seek(SeekFrom::Start(0));
    let _ = f.write_all(&b);
}

/// (case index in flight, cases done, non-trivial cases, size of a refused huge allocation)
fn read_progress(path: &str) -> (u64, u64, u64, u64) {
    let mut b = [0u8; 32];
    if let Ok(mut f) = std::fs::File::open(path) {
        let _ = f.read_exact(&mut b);
    }
    let g = |i: usize| u64::from_le_bytes(b[i * 8..i * 8 + 8].try_into().unwrap());
    (g(0), g(1), g(2), g(3))
}

/// Extra environment for the children of the next `run_isolated` call (e.g. VERIF_GUARD).
static CHILD_ENV: std::sync::Mutex<Vec<(String, String)>> = std::sync::Mutex::new(Vec::new());

/// Like `run_isolated`, with extra environment variables for the children. In a child process the
/// first call runs the cases and exits, whatever its arguments.
pub fn run_isolated_env(cli: &Cli, rep: &Report, check: &'static (dyn IsoCheck + 'static), env: &[(&str, &str)]) {
    *CHILD_ENV.lock().unwrap() = env.iter().map(|(k, v)| (k.to_string(), v.to_string())).collect();
    run_isolated(cli, rep, check);
    CHILD_ENV.lock().unwrap().clear();
}

/// Entry point used by both parent and children.
pub fn run_isolated(cli: &Cli, rep: &Report, check: &'static (dyn IsoCheck + 'static)) {
    // debugging aid: VERIF_ISO_DESC=12,99 prints the descriptors of those case indices and exits
    if let Ok(list) = std::env::var("VERIF_ISO_DESC") {
        for i in list.split(',').filter_map(|x| x.trim().parse::<usize>().ok()) {
            if i < check.n_cases() {
                println!("{i} {}", check.desc(i));
            }
        }
        std::process::exit(0);
    }
    if let Some((k, kk, resume, dir)) = child_args(cli) {
        child_main(cli, check, k, kk, resume, &dir);
        std::process::exit(0);
    }
    parent_main(cli, rep, check);
}

#[inline]
fn owner(i: usize, kk: usize) -> usize {
    (((i as u64).wrapping_mul(0x9E37_79B9_7F4A_7C15) >> 33) % kk as u64) as usize
}

fn child_main(cli: &Cli, check: &'static dyn IsoCheck, k: usize, kk: usize, resume: usize, dir: &str) {
    set_limits();
    let progress_path = format!("{dir}/progress.{k}");
    let viol_path = format!("{dir}/violations.{k}.jsonl");
    let final_path = format!("{dir}/final.{k}.{resume}.json");
    let mut pf = std::fs::OpenOptions::new().create(true).read(true).write(true).truncate(false).open(&progress_path).expect("progress file");
    let mut vf = std::fs::OpenOptions::new().create(true).append(true).open(&viol_path).expect("violations file");
    map_progress(&pf);
    mc_core::alloc::CAP_HOOK.store(cap_hook as usize, std::sync::atomic::Ordering::Relaxed);
    let rep = Report::new(&cli.check);
    rep.enable_stream();
    write_progress(&mut pf, STARTING, 0, 0);
    let n = check.n_cases();
    let only = cli.only.clone();
    let handle = std::thread::Builder::new()
        .stack_size(CHILD_STACK)
        .spawn(move || {
            // a single request above the cap fails (-> abort -> attributed to the case in flight);
            // zeroed multi-GiB dictionaries below it are mapped lazily and cost nothing until touched
            mc_core::alloc::set_request_cap(REQUEST_CAP);
            let mut done = 0u64;
            let mut nontrivial = 0u64;
            let mut i = resume;
            let mut last_final = Instant::now();
            while i < n {
                // cases are dealt to the children by a hash of their index: neighbouring indices (which differ in one
                // option and have correlated costs) do not systematically land on the same child
                if owner(i, kk) != k {
                    i += 1;
                    continue;
                }
                if let Some(o) = &only {
                    if !o.contains(&check.desc(i)) {
                        i += 1;
                        continue;
                    }
                }
                // the counters of this segment survive a death in a later case: rewritten every 200 ms
                if last_final.elapsed() > Duration::from_millis(200) {
                    let counters: serde_json::Map<String, Value> = rep.counters().into_iter().map(|(k, v)| (k, json!(v))).collect();
                    let _ = std::fs::write(&final_path, serde_json::to_string(&json!({"counters": counters})).unwrap());
                    last_final = Instant::now();
                }
                write_progress(&mut pf, i as u64, done, nontrivial);
                let nt = check.run(i, &rep);
                done += 1;
                if nt {
                    nontrivial += 1;
                }
                for v in rep.take_streamed() {
                    let line = json!({"kind": v.kind, "site": v.site, "attrs": v.attrs, "case": v.case, "detail": v.detail});
                    let _ = writeln!(vf, "{line}");
                }
                i += 1;
            }
            write_progress(&mut pf, u64::MAX, done, nontrivial);
            let counters: serde_json::Map<String, Value> = rep.counters().into_iter().map(|(k, v)| (k, json!(v))).collect();
            let _ = std::fs::write(&final_path, serde_json::to_string(&json!({"counters": counters})).unwrap());
        })
        .expect("spawn case thread");
    let _ = handle.join();
}

struct Slot {
    k: usize,
    child: Child,
    last_idx: u64,
    last_change: Instant,
    resume: usize,
    /// CPU ticks (utime + stime of all threads) at the last watchdog inspection
    last_cpu: u64,
    idle_inspections: u32,
    /// CPU ticks when the watchdog first inspected the case in flight (u64::MAX = not yet)
    watch_cpu_start: u64,
}

/// (any thread runnable?, total CPU ticks) of a process, from /proc. A blocked (deadlocked)
/// process has no runnable thread and burns no CPU; a merely slow or starved one does.
fn proc_activity(pid: u32) -> (bool, u64) {
    let mut runnable = false;
    let mut ticks = 0u64;
    if let Ok(rd) = std::fs::read_dir(format!("/proc/{pid}/task")) {
        for e in rd.flatten() {
            if let Ok(stat) = std::fs::read_to_string(e.path().join("stat")) {
                // fields after the last ')': state utime(14) stime(15) ...
                if let Some(pos) = stat.rfind(')') {
                    let f: Vec<&str> = stat[pos + 1..].split_whitespace().collect();
                    if f.first().map(|s| *s == "R" || *s == "D").unwrap_or(false) {
                        runnable = true;
                    }
                    let ut: u64 = f.get(11).and_then(|x| x.parse().ok()).unwrap_or(0);
                    let st: u64 = f.get(12).and_then(|x| x.parse().ok()).unwrap_or(0);
                    ticks += ut + st;
                }
            }
        }
    }
    (runnable, ticks)
}

/// wall-clock limit for a case that is still burning CPU (slow, starved by load, or livelocked)
const BUSY_LIMIT: Duration = Duration::from_secs(120);
/// CPU-time limit (clock ticks, 100/s) for one case, counted from the moment the watchdog first inspects it
const BUSY_CPU_TICKS: u64 = 3000;
/// after this many hangs the remaining cases of a run are not worth 20 s each: the run stops and reports what it has
const MAX_HANGS: u64 = 48;

fn spawn(cli: &Cli, k: usize, kk: usize, resume: usize, dir: &str) -> Child {
    if let Ok(mut f) = std::fs::OpenOptions::new().create(true).write(true).truncate(false).open(format!("{dir}/progress.{k}")) {
        write_progress(&mut f, STARTING, 0, 0);
    }
    let exe = std::env::current_exe().expect("current exe");
    let mut c = Command::new(exe);
    c.arg(&cli.check).arg("--tier").arg(&cli.tier).arg("--seed").arg(cli.seed.to_string());
    if let Some(o) = &cli.only {
        let f = format!("{dir}/only.txt");
        if !std::path::Path::new(&f).exists() {
            let mut s = String::new();
            for l in o {
                s.push_str(l);
                s.push('\n');
            }
            std::fs::write(&f, s).expect("only file");
        }
        c.arg("--only-file").arg(f);
    }
    c.arg("--child").arg(format!("{k}/{kk}")).arg("--resume-from").arg(resume.to_string()).arg("--dir").arg(dir);
    for (k, v) in CHILD_ENV.lock().unwrap().iter() {
        c.env(k, v);
    }
    c.stdin(Stdio::null()).stdout(Stdio::null()).stderr(Stdio::null());
    c.spawn().expect("spawn child")
}

fn parent_main(cli: &Cli, rep: &Report, check: &'static dyn IsoCheck) {
    let kk = mc_core::run::threads();
    let dir = format!("{}/iso.{}.{}", std::env::temp_dir().display(), cli.check, std::process::id());
    let dir = std::env::var("VERIF_ISO_DIR").map(|d| format!("{d}/iso.{}.{}", cli.check, std::process::id())).unwrap_or(dir);
    let _ = std::fs::remove_dir_all(&dir);
    std::fs::create_dir_all(&dir).expect("iso dir");
    let n = check.n_cases();
    let mut slots: Vec<Slot> = (0..kk)
        .map(|k| Slot { k, child: spawn(cli, k, kk, 0, &dir), last_idx: u64::MAX - 1, last_change: Instant::now(), resume: 0, last_cpu: 0, idle_inspections: 0, watch_cpu_start: u64::MAX })
        .collect();
    let mut deaths = 0u64;
    let mut hangs = 0u64;
    let mut finished = vec![false; kk];
    let mut totals = vec![(0u64, 0u64); kk]; // (done, nontrivial) accumulated over dead segments
    loop {
        let mut all_done = true;
        for s in slots.iter_mut() {
            if finished[s.k] {
                continue;
            }
            all_done = false;
            let (idx, done, nt, cap_size) = read_progress(&format!("{dir}/progress.{}", s.k));
            if idx != s.last_idx {
                s.last_idx = idx;
                s.last_change = Instant::now();
                s.idle_inspections = 0;
                s.watch_cpu_start = u64::MAX;
            }
            let status = s.child.try_wait().expect("try_wait");
            let mut restart_after: Option<(usize, String, String)> = None;
            match status {
                Some(st) => {
                    if idx == u64::MAX && st.success() {
                        totals[s.k].0 += done;
                        totals[s.k].1 += nt;
                        finished[s.k] = true;
                    } else {
                        let why = match st.signal() {
                            Some(sig) => format!("killed by signal {sig}"),
                            None => format!("exit status {:?}", st.code()),
                        };
                        let kind = match st.signal() {
                            Some(6) => "abort (allocation failure, double panic or explicit abort)",
                            Some(11) | Some(7) => "segmentation fault (stack overflow or invalid memory access)",
                            Some(9) => "killed (memory limit)",
                            _ => "process died",
                        };
                        if cap_size != 0 && st.signal() == Some(6) {
                            // the case asked for a single allocation above the harness's 1 GiB cap
                            restart_after = Some((idx as usize, "huge-allocation".into(), format!("a single allocation of {cap_size} bytes was requested (harness cap 5 GiB): {why}")));
                        } else {
                            restart_after = Some((idx as usize, "process-death".into(), format!("{kind}: {why}")));
                        }
                        deaths += 1;
                    }
                }
                None => {
                    let limit = if idx == STARTING { STARTUP_GRACE } else { WATCHDOG };
                    if idx != u64::MAX && s.last_change.elapsed() > limit {
                        // Wall time alone is load dependent. A hang is declared only when the
                        // process is really blocked: no runnable thread and no CPU consumed over
                        // several consecutive inspections (>= 2 s); a case that keeps burning CPU
                        // gets the much longer busy limit (then it is a livelock / runaway).
                        let (runnable, cpu) = proc_activity(s.child.id());
                        if !runnable && cpu == s.last_cpu {
                            s.idle_inspections += 1;
                        } else {
                            s.idle_inspections = 0;
                        }
                        s.last_cpu = cpu;
                        let blocked = s.idle_inspections >= 40; // 40 polls x 50 ms
                        // CPU time is load independent: a case that has burnt BUSY_CPU_TICKS of CPU since the watchdog
                        // first looked at it is a livelock / runaway whatever the wall clock says
                        if s.watch_cpu_start == u64::MAX {
                            s.watch_cpu_start = cpu;
                        }
                        let runaway = s.last_change.elapsed() > BUSY_LIMIT || cpu.saturating_sub(s.watch_cpu_start) > BUSY_CPU_TICKS;
                        if blocked || runaway {
                            let _ = s.child.kill();
                            let _ = s.child.wait();
                            let what = if blocked {
                                format!("blocked: no progress for {} s, no runnable thread, no CPU used", s.last_change.elapsed().as_secs())
                            } else {
                                format!("runaway: still computing after {} s of CPU time / {} s in one case", BUSY_CPU_TICKS / 100, BUSY_LIMIT.as_secs())
                            };
                            restart_after = Some((idx as usize, "hang".into(), what));
                            hangs += 1;
                        }
                    }
                }
            }
            if let Some((case_idx, kind, detail)) = restart_after {
                totals[s.k].0 += done + 1;
                totals[s.k].1 += nt;
                if case_idx < n && kind == "huge-allocation" && check.huge_alloc_ok(case_idx, cap_size) {
                    rep.add("inconclusive_huge_allocation", 1);
                } else if case_idx < n && check.resource_heavy(case_idx) {
                    rep.add("inconclusive_resource_limit", 1);
                } else if case_idx < n {
                    let site = if kind == "hang" { detail.split(':').next().unwrap_or("").to_string() } else { detail.split(':').next().unwrap_or("").to_string() };
                    let mut v = Violation::new(&kind, site, check.desc(case_idx)).detail(detail);
                    for (k, val) in check.attrs(case_idx) {
                        v = v.attr(&k, val);
                    }
                    rep.violation(v);
                } else {
                    rep.machinery_error(format!("child {} died outside a case: {detail}", s.k));
                    finished[s.k] = true;
                    continue;
                }
                let resume = case_idx + 1;
                if deaths + hangs > 400 || hangs > MAX_HANGS {
                    rep.add("capped_by_deaths_or_hangs", 1);
                    rep.machinery_error("more than 400 child deaths or 48 hangs: giving up (the cases already recorded are reported)");
                    finished[s.k] = true;
                    continue;
                }
                s.resume = resume;
                s.child = spawn(cli, s.k, kk, resume, &dir);
                s.last_idx = u64::MAX - 1;
                s.last_change = Instant::now();
                s.idle_inspections = 0;
                s.last_cpu = 0;
                s.watch_cpu_start = u64::MAX;
            }
        }
        if all_done {
            break;
        }
        std::thread::sleep(Duration::from_millis(50));
    }
    // collect streamed violations and final counters
    for k in 0..kk {
        if let Ok(text) = std::fs::read_to_string(format!("{dir}/violations.{k}.jsonl")) {
            for line in text.lines() {
                if let Ok(v) = serde_json::from_str::<Value>(line) {
                    let mut viol = Violation::new(v["kind"].as_str().unwrap_or("?"), v["site"].as_str().unwrap_or("?").to_string(), v["case"].as_str().unwrap_or("?").to_string())
                        .detail(v["detail"].as_str().unwrap_or("").to_string());
                    if let Some(m) = v["attrs"].as_object() {
                        for (k, val) in m {
                            viol = viol.attr(k, val.as_str().unwrap_or(""));
                        }
                    }
                    rep.violation(viol);
                }
            }
        }
    }
    if let Ok(rd) = std::fs::read_dir(&dir) {
        for e in rd.flatten() {
            let name = e.file_name().to_string_lossy().to_string();
            if name.starts_with("final.") {
                if let Ok(text) = std::fs::read_to_string(e.path()) {
                    if let Ok(v) = serde_json::from_str::<Value>(&text) {
                        if let Some(m) = v["counters"].as_object() {
                            for (k, val) in m {
                                if k != "evaluations" {
                                    rep.add(k, val.as_u64().unwrap_or(0));
                                }
                            }
                        }
                    }
                }
            }
        }
    }
    let done: u64 = totals.iter().map(|t| t.0).sum();
    let nt: u64 = totals.iter().map(|t| t.1).sum();
    rep.add_many(&[("evaluations", done), ("child_deaths", deaths), ("child_hangs", hangs), ("child_processes", kk as u64)]);
    // distinct non-trivial cases: the cases are distinct by construction (one index each); the
    // children count them, the parent registers that many distinct keys
    let keys: Vec<u64> = (0..nt).map(|i| i.wrapping_mul(0x9E37_79B9_7F4A_7C15) ^ 0xC06).collect();
    rep.nontrivial_many(&keys);
    let _ = std::fs::remove_dir_all(&dir);
}
