//! C11 — BCJ, Delta and BCJ2 filters are exact inverses and match the reference.

use crate::c07::bcj_alphabet;
use crate::codec::{Bcj, Filt, ALL_BCJ};
use crate::common::*;
use crate::refimpl;
use lzma_rust2::filter::bcj2::BCJ2Reader;
use lzma_rust2::filter::delta::{DeltaReader, DeltaWriter};
use mc_core::gen::{self, Seg};
use mc_core::report::{brief, hex};
use mc_core::run::{catch, par_for_with, Cli};
use mc_core::{Report, Violation};
use serde_json::json;
use std::io::{Read, Write};

fn ours_encode(b: Bcj, start: u32, data: &[u8]) -> std::io::Result<Vec<u8>> {
    let mut out = Vec::with_capacity(data.len());
    let mut w = b.writer(&mut out, start as usize);
    w.write_all(data)?;
    drop(w);
    Ok(out)
}

fn ours_decode(b: Bcj, start: u32, data: &[u8], bufsize: usize) -> std::io::Result<Vec<u8>> {
    let mut r = b.reader(data, start as usize);
    let mut out = Vec::with_capacity(data.len());
    let mut buf = vec![0u8; bufsize];
    loop {
        let n = r.read(&mut buf)?;
        if n == 0 {
            return Ok(out);
        }
        out.extend_from_slice(&buf[..n]);
    }
}

/// Instruction length in bytes used for the exhaustive strings of an architecture.
fn arch_len(b: Bcj, thorough: bool) -> usize {
    match b {
        Bcj::X86 => if thorough { 8 } else { 7 },
        Bcj::Arm | Bcj::Ppc | Bcj::Sparc => if thorough { 8 } else { 6 },
        Bcj::ArmThumb => if thorough { 8 } else { 6 },
        Bcj::Arm64 => if thorough { 8 } else { 6 },
        Bcj::RiscV => if thorough { 9 } else { 8 },
        Bcj::Ia64 => 16,
    }
}

fn nth_string(a: &[u8], len: usize, mut idx: usize) -> Vec<u8> {
    let mut v = vec![0u8; len];
    for i in (0..len).rev() {
        v[i] = a[idx % a.len()];
        idx /= a.len();
    }
    v
}

/// Dense instruction windows: per byte position the candidate values; positions that carry opcode /
/// condition / flag bits take all 256 values, operand bytes a few. The product is enumerated
/// completely. This is what catches a changed mask or comparison constant in a filter: the
/// alphabets above only contain bytes that the *current* code looks for.
fn dense_spec(b: Bcj) -> Vec<Vec<u8>> {
    let all: Vec<u8> = (0..=255u8).collect();
    let few = |v: &[u8]| v.to_vec();
    match b {
        Bcj::X86 => vec![few(&[0x00, 0xE8, 0x0F, 0xFF]), few(&[0xE8, 0xE9]), few(&[0x00, 0xFF]), few(&[0x00, 0xFF, 0x7F]), few(&[0x00, 0xFF, 0x80, 0x7F]), all.clone(), few(&[0x00, 0xE8])],
        Bcj::Arm => vec![few(&[0x00, 0xFF, 0x80]), few(&[0x00, 0xFF]), all.clone(), all.clone()],
        Bcj::ArmThumb => vec![few(&[0x00, 0xFF, 0x80]), all.clone(), few(&[0x00, 0xFF, 0x80]), all.clone()],
        Bcj::Arm64 => vec![few(&[0x00, 0x1F, 0xFF, 0xE0]), few(&[0x00, 0xFF, 0x80]), all.clone(), all.clone()],
        Bcj::Ppc => vec![all.clone(), few(&[0x00, 0xFF, 0x80]), few(&[0x00, 0xFF, 0x80]), all.clone()],
        Bcj::Sparc => vec![all.clone(), all.clone(), few(&[0x00, 0xFF]), few(&[0x00, 0xFF])],
        Bcj::RiscV => vec![few(&[0x17, 0x97, 0xEF, 0x6F, 0x13, 0x37]), all.clone(), few(&[0x00]), all.clone(), few(&[0x13, 0x03, 0x67, 0x00, 0xFF, 0x93]), few(&[0x01, 0x81, 0x80, 0xF0]), few(&[0x00, 0x0F]), few(&[0x00, 0xFF])],
        Bcj::Ia64 => vec![],
    }
}

fn dense_count(spec: &[Vec<u8>]) -> usize {
    if spec.is_empty() {
        0
    } else {
        spec.iter().map(|v| v.len()).product()
    }
}

fn dense_nth(spec: &[Vec<u8>], mut idx: usize) -> Vec<u8> {
    let mut v = vec![0u8; spec.len()];
    for i in (0..spec.len()).rev() {
        v[i] = spec[i][idx % spec[i].len()];
        idx /= spec[i].len();
    }
    v
}

/// IA-64: every template x every slot x every (opcode nibble, btype) pair, other slots empty or equal.
fn ia64_dense() -> Vec<Vec<u8>> {
    let mut v = vec![];
    for template in 0..32u128 {
        for slot in 0..4u32 {
            for opcode in 0..16u128 {
                for btype in 0..8u128 {
                    let val: u128 = (opcode << 37) | (btype << 6) | (0x2468Au128 << 13) | (1u128 << 36);
                    let mut bits = template;
                    for k in 0..3u32 {
                        if slot == 3 || slot == k {
                            bits |= val << (5 + 41 * k);
                        }
                    }
                    v.push(bits.to_le_bytes().to_vec());
                }
            }
        }
    }
    v
}

/// IA-64 bundles: template byte x slot patterns (the 41-bit slots get opcode 5 / other, btype 0 / other).
fn ia64_bundles() -> Vec<Vec<u8>> {
    let mut v = vec![];
    for template in [0x10u8, 0x11, 0x12, 0x13, 0x16, 0x17, 0x18, 0x19, 0x1C, 0x1D, 0x00, 0x08] {
        for pattern in 0..27u32 {
            // per slot: 0 = zeros, 1 = branch-like (opcode 5, btype 0), 2 = all ones
            let mut bits: u128 = template as u128;
            for slot in 0..3 {
                let kind = (pattern / 3u32.pow(slot)) % 3;
                let val: u128 = match kind {
                    0 => 0,
                    1 => (0x5u128 << 37) | (0x12345u128 << 13) | (1u128 << 36),
                    _ => (1u128 << 41) - 1,
                };
                bits |= val << (5 + 41 * slot);
            }
            v.push(bits.to_le_bytes().to_vec());
        }
    }
    v
}

pub fn run(cli: &Cli, rep: &Report) {
    let thorough = cli.thorough();
    rep.rule(
        "E-enum, differential against liblzma's filters: (1) per BCJ architecture every string over the opcode alphabet of the instruction-size length, packed with neutral separators \
         into 64 KiB buffers so that instructions straddle the reader's 4096-byte buffer at every alignment-granular shift 0..32, x start offsets {0, alignment, 4096, 2^31-16*alignment, 2^32-alignment}: \
         writer output = liblzma's filter output, reader(writer(x)) = x, reader(x) = liblzma decoder-side filter; (2) every whole input MICRO(alphabet, <= Ls) alone (tail handling); the 8 real executables; \
         (3) Delta: distances 1..=256 x patterned inputs and {1,2,3,4,255,256} x MICRO(A3,7) against liblzma and inverse; (4) BCJ2: a reference encoder in the harness produces, for every MICRO string over \
         {E8,E9,0F,80,00,FF,12} of length <= L2, EVERY vector of convert/keep decisions, and BCJ2Reader must return the original under several destination sizes; non-trivial = the filter changed at least one byte",
    );
    rep.assumption("liblzma's BCJ filters are reached by raw-encoding with [filter, LZMA2] and raw-decoding with [LZMA2] only");
    rep.assumption("the BCJ2 reference encoder is the mirror of the decoder's stream grammar (7-Zip Bcj2.c, pre-23 format); if it disagrees with the decoder, the encoder is the first suspect");

    // ------------------------------------------------------------- (1) packed exhaustive strings
    struct Job {
        b: Bcj,
        start: u32,
        shift: usize,
        first: usize,
        count: usize,
        dense: bool,
    }
    let mut jobs: Vec<Job> = vec![];
    let mut total_strings = 0usize;
    for b in ALL_BCJ {
        let a = bcj_alphabet(b);
        let len = arch_len(b, thorough);
        let n = if b == Bcj::Ia64 { ia64_bundles().len() } else { a.len().pow(len as u32) };
        total_strings += n;
        let al = b.alignment() as usize;
        let unit = (len + 8).div_ceil(al.max(4)) * al.max(4);
        let per_buf = (65536 / unit).max(1);
        let starts: Vec<u32> = vec![0, b.alignment(), 4096, (1u32 << 31) - 16 * b.alignment(), 0u32.wrapping_sub(b.alignment())];
        let shifts: Vec<usize> = (0..=32).step_by(al).collect();
        let mut first = 0;
        let mut bi = 0usize;
        while first < n {
            let count = per_buf.min(n - first);
            // every buffer with start 0 and a rotating shift; plus the other start offsets on a rotating basis
            jobs.push(Job { b, start: 0, shift: shifts[bi % shifts.len()], first, count, dense: false });
            jobs.push(Job { b, start: starts[1 + bi % (starts.len() - 1)], shift: shifts[(bi / 2) % shifts.len()], first, count, dense: false });
            first += count;
            bi += 1;
        }
    }
    // dense windows
    let ia64d = ia64_dense();
    let mut dense_total = 0usize;
    for b in ALL_BCJ {
        let spec = dense_spec(b);
        let n = if b == Bcj::Ia64 { ia64d.len() } else { dense_count(&spec) };
        dense_total += n;
        let len = if b == Bcj::Ia64 { 16 } else { spec.len() };
        let al = b.alignment() as usize;
        let unit = (len + 8).div_ceil(al.max(4)) * al.max(4);
        let per_buf = (65536 / unit).max(1);
        let mut first = 0;
        let mut bi = 0usize;
        while first < n {
            let count = per_buf.min(n - first);
            let start = [0u32, 4096, 0u32.wrapping_sub(16 * b.alignment())][bi % 3];
            jobs.push(Job { b, start, shift: (bi % 5) * al, first, count, dense: true });
            first += count;
            bi += 1;
        }
    }
    rep.extra("packed", json!({"alphabet_strings": total_strings, "dense_windows": dense_total, "buffers": jobs.len()}));
    let bundles = ia64_bundles();
    par_for_with(
        jobs.len(),
        1,
        |_| (0u64, Vec::<u64>::new()),
        |st, ji| {
            let j = &jobs[ji];
            let desc = || format!("C11|{}|{}|start{}|shift{}|first{}|count{}", if j.dense { "dense" } else { "packed" }, j.b.name(), j.start, j.shift, j.first, j.count);
            if !cli.selected_with(desc) {
                return;
            }
            let a = bcj_alphabet(j.b);
            let spec = dense_spec(j.b);
            let len = if j.dense { if j.b == Bcj::Ia64 { 16 } else { spec.len() } } else { arch_len(j.b, thorough) };
            let al = j.b.alignment() as usize;
            let unit = (len + 8).div_ceil(al.max(4)) * al.max(4);
            let mut buf = vec![0x12u8; j.shift];
            for k in 0..j.count {
                let s = if j.dense {
                    if j.b == Bcj::Ia64 { ia64d[j.first + k].clone() } else { dense_nth(&spec, j.first + k) }
                } else if j.b == Bcj::Ia64 {
                    bundles[j.first + k].clone()
                } else {
                    nth_string(a, len, j.first + k)
                };
                let before = buf.len();
                buf.extend_from_slice(&s);
                buf.resize(before + unit, 0x12);
            }
            st.0 += j.count as u64;
            check_buffer(rep, j.b, j.start, &buf, &desc, st);
        },
        |st| {
            rep.add_many(&[("evaluations", st.0), ("bcj_strings", st.0)]);
            rep.nontrivial_many(&st.1);
        },
    );

    // ------------------------------------------------------------- (2) whole short inputs + executables
    struct Whole {
        b: Bcj,
        start: u32,
        data: Vec<u8>,
        name: String,
    }
    let mut wholes: Vec<Whole> = vec![];
    for b in ALL_BCJ {
        let a = bcj_alphabet(b);
        let ls = if thorough { 6 } else { 5 };
        for i in 0..gen::micro_count(a.len(), ls) {
            let data = gen::micro_nth(a, i);
            wholes.push(Whole { b, start: 0, name: format!("micro:{}", hex(&data)), data });
        }
        // lengths around the instruction size with a real instruction at the very end
        let len = arch_len(b, false).min(16);
        for extra in 0..(b.alignment() as usize + 5) {
            let mut data = vec![0x12u8; extra];
            data.extend_from_slice(&nth_string(a, len, 0));
            wholes.push(Whole { b, start: b.alignment(), name: format!("tail{extra}"), data });
        }
    }
    for name in ["wget-x86", "wget-arm", "wget-arm-thumb", "wget-arm64", "wget-ppc", "wget-sparc", "wget-ia64", "wget-riscv"] {
        if let Ok(bytes) = std::fs::read(format!("{}/tests/data/{name}", gen::repo_dir())) {
            let b = match name {
                "wget-x86" => Bcj::X86,
                "wget-arm" => Bcj::Arm,
                "wget-arm-thumb" => Bcj::ArmThumb,
                "wget-arm64" => Bcj::Arm64,
                "wget-ppc" => Bcj::Ppc,
                "wget-sparc" => Bcj::Sparc,
                "wget-ia64" => Bcj::Ia64,
                _ => Bcj::RiscV,
            };
            let take = if thorough { bytes.len() } else { bytes.len().min(200_000) };
            wholes.push(Whole { b, start: 0, name: name.to_string(), data: bytes[..take].to_vec() });
            wholes.push(Whole { b, start: 4096 * 4, name: format!("{name}@16384"), data: bytes[..take.min(60_000)].to_vec() });
        }
    }
    rep.extra("whole_inputs", json!(wholes.len()));
    par_for_with(
        wholes.len(),
        0,
        |_| (0u64, Vec::<u64>::new()),
        |st, i| {
            let w = &wholes[i];
            let desc = || format!("C11|whole|{}|start{}|{}", w.b.name(), w.start, w.name);
            if !cli.selected_with(desc) {
                return;
            }
            st.0 += 1;
            check_buffer(rep, w.b, w.start, &w.data, &desc, st);
        },
        |st| {
            rep.add_many(&[("evaluations", st.0), ("bcj_whole_inputs", st.0)]);
            rep.nontrivial_many(&st.1);
        },
    );

    // ------------------------------------------------------------- (3) Delta
    struct DCase {
        d: usize,
        data: Vec<u8>,
        name: String,
    }
    let mut dcases: Vec<DCase> = vec![];
    for d in 1..=256usize {
        for n in [0usize, d.saturating_sub(1), d, d + 1, 2 * d + 1, 600] {
            let data: Vec<u8> = (0..n).map(|i| (i as u8).wrapping_mul(7) ^ (i >> 5) as u8).collect();
            dcases.push(DCase { d, data, name: format!("pattern{n}") });
        }
        dcases.push(DCase { d, data: gen::build(&[Seg::C(700)], 1), name: "text700".into() });
    }
    for d in [1usize, 2, 3, 4, 255, 256] {
        for i in 0..gen::micro_count(3, if thorough { 7 } else { 6 }) {
            let data = gen::micro_nth(&A3, i);
            dcases.push(DCase { d, name: format!("micro:{}", hex(&data)), data });
        }
    }
    rep.extra("delta_cases", json!(dcases.len()));
    par_for_with(
        dcases.len(),
        0,
        |_| (0u64, Vec::<u64>::new()),
        |st, i| {
            let c = &dcases[i];
            let desc = || format!("C11|delta|d{}|{}", c.d, c.name);
            if !cli.selected_with(desc) {
                return;
            }
            st.0 += 1;
            let mk = |kind: &str, site: &str, detail: String| rep.violation(Violation::new(kind, site, desc()).attr("filter", "delta").detail(detail));
            let r = catch(|| {
                let mut enc = Vec::new();
                DeltaWriter::new(&mut enc, c.d).write_all(&c.data)?;
                let mut dec = Vec::new();
                DeltaReader::new(enc.as_slice(), c.d).read_to_end(&mut dec)?;
                // odd destination sizes
                let mut dec2 = Vec::new();
                let mut r = DeltaReader::new(enc.as_slice(), c.d);
                let mut buf = [0u8; 7];
                loop {
                    let n = r.read(&mut buf)?;
                    if n == 0 {
                        break;
                    }
                    dec2.extend_from_slice(&buf[..n]);
                }
                Ok::<_, std::io::Error>((enc, dec, dec2))
            });
            match r {
                Err(p) => mk("panic", &p.site(), p.msg),
                Ok(Err(e)) => mk("error", &format!("{:?}", e.kind()), e.to_string()),
                Ok(Ok((enc, dec, dec2))) => {
                    if dec != c.data || dec2 != c.data {
                        mk("not-inverse", "DeltaReader(DeltaWriter(x)) != x", format!("x={} enc={}", brief(&c.data), brief(&enc)));
                        return;
                    }
                    match refimpl::filter_encode(&c.data, &Filt::Delta(c.d as u32)) {
                        Ok(reference) => {
                            if reference != enc {
                                mk("reference-mismatch", "DeltaWriter output differs from liblzma's delta filter", format!("ours={} ref={}", brief(&enc), brief(&reference)));
                                return;
                            }
                        }
                        Err(e) => {
                            rep.machinery_error(format!("liblzma delta filter failed: {e}"));
                            return;
                        }
                    }
                    if enc != c.data {
                        st.1.push(hash_desc(&desc()));
                    }
                }
            }
        },
        |st| {
            rep.add_many(&[("evaluations", st.0), ("delta_inputs", st.0)]);
            rep.nontrivial_many(&st.1);
        },
    );

    // ------------------------------------------------------------- (4) BCJ2
    bcj2(cli, rep, thorough);
}

/// Compare our writer/reader with liblzma's filter on one buffer.
fn check_buffer(rep: &Report, b: Bcj, start: u32, data: &[u8], desc: &dyn Fn() -> String, st: &mut (u64, Vec<u64>)) {
    let mk = |kind: &str, site: &str, detail: String| {
        rep.violation(
            Violation::new(kind, site, desc())
                .attr("filter", b.name())
                .attr("start", if start >= 1 << 30 { "huge" } else { "small" })
                .detail(detail),
        )
    };
    let filt = Filt::Bcj(b, start);
    let enc = match catch(|| ours_encode(b, start, data)) {
        Err(p) => {
            mk("panic", &format!("encode: {}", p.site()), format!("{}:{} {}", p.file, p.line, p.msg));
            return;
        }
        Ok(Err(e)) => {
            mk("error", &format!("{:?}", e.kind()), e.to_string());
            return;
        }
        Ok(Ok(e)) => e,
    };
    let first_diff = |x: &[u8], y: &[u8]| x.iter().zip(y.iter()).position(|(a, b)| a != b).unwrap_or(x.len().min(y.len()));
    match refimpl::filter_encode(data, &filt) {
        Ok(reference) => {
            if reference != enc {
                let p = first_diff(&reference, &enc);
                let lo = p.saturating_sub(8);
                mk(
                    "reference-mismatch",
                    "BCJWriter output differs from liblzma's filter",
                    format!("first difference at {p}: input {} ours {} ref {}", hex(&data[lo..(p + 8).min(data.len())]), hex(&enc[lo..(p + 8).min(enc.len())]), hex(&reference[lo..(p + 8).min(reference.len())])),
                );
                return;
            }
        }
        Err(e) => {
            rep.machinery_error(format!("liblzma {} filter failed: {e}", b.name()));
            return;
        }
    }
    for bs in [65536usize, 4096, 7] {
        if bs == 7 && data.len() > 20_000 {
            continue;
        }
        match catch(|| ours_decode(b, start, &enc, bs)) {
            Err(p) => {
                mk("panic", &format!("decode: {}", p.site()), format!("{}:{} {}", p.file, p.line, p.msg));
                return;
            }
            Ok(Err(e)) => {
                mk("error", &format!("{:?}", e.kind()), e.to_string());
                return;
            }
            Ok(Ok(dec)) => {
                if dec != data {
                    let p = first_diff(&dec, data);
                    let lo = p.saturating_sub(8);
                    mk(
                        "not-inverse",
                        "BCJReader(BCJWriter(x)) != x",
                        format!("destination size {bs}; first difference at {p}: x {} got {}", hex(&data[lo..(p + 8).min(data.len())]), hex(&dec[lo..(p + 8).min(dec.len())])),
                    );
                    return;
                }
            }
        }
    }
    // decoder direction on arbitrary (unfiltered) bytes against liblzma's decoder-side filter
    if let (Ok(Ok(ours)), Ok(reference)) = (catch(|| ours_decode(b, start, data, 4096)), refimpl::filter_decode(data, &filt)) {
        if ours != reference {
            let p = first_diff(&ours, &reference);
            mk("reference-mismatch", "BCJReader output differs from liblzma's decoder-side filter", format!("first difference at {p}"));
            return;
        }
    }
    if enc != data {
        st.1.push(hash_desc(&desc()));
    }
}

// ----------------------------------------------------------------------------- BCJ2 reference encoder

struct Rc {
    low: u64,
    range: u32,
    cache: u8,
    cache_size: u64,
    out: Vec<u8>,
}

impl Rc {
    fn new() -> Self {
        Rc { low: 0, range: 0xFFFF_FFFF, cache: 0, cache_size: 1, out: vec![] }
    }
    fn shift_low(&mut self) {
        if (self.low as u32) < 0xFF00_0000 || (self.low >> 32) != 0 {
            let carry = (self.low >> 32) as u8;
            let mut temp = self.cache;
            loop {
                self.out.push(temp.wrapping_add(carry));
                temp = 0xFF;
                self.cache_size -= 1;
                if self.cache_size == 0 {
                    break;
                }
            }
            self.cache = (self.low >> 24) as u8;
        }
        self.cache_size += 1;
        self.low = (self.low & 0x00FF_FFFF) << 8;
    }
    fn encode(&mut self, prob: &mut u16, bit: bool) {
        let bound = (self.range >> 11) * (*prob as u32);
        if !bit {
            self.range = bound;
            *prob += (2048 - *prob) >> 5;
        } else {
            self.low += bound as u64;
            self.range -= bound;
            *prob -= *prob >> 5;
        }
        // Normalise AFTER the bit like 7-Zip's encoder does: the decoder normalises lazily before
        // it looks at the main stream again, also after the very last bit, and needs this byte.
        // (A first version of this encoder normalised before the next bit and lost the byte after
        // the final bit; the decoder then ended in state RC: harness error, not a decoder defect.)
        if self.range < (1 << 24) {
            self.range <<= 8;
            self.shift_low();
        }
    }
    fn finish(mut self) -> Vec<u8> {
        for _ in 0..5 {
            self.shift_low();
        }
        self.out
    }
}

/// All correct four-stream encodings of `orig`: one per vector of convert/keep decisions.
/// Returns (main, call, jump, rc, decisions).
fn bcj2_encodings(orig: &[u8], max: usize) -> Vec<([Vec<u8>; 4], String)> {
    let mut results = vec![];
    // DFS over decisions
    fn rec(orig: &[u8], decisions: &mut Vec<bool>, results: &mut Vec<([Vec<u8>; 4], String)>, max: usize) {
        if results.len() >= max {
            return;
        }
        // replay with the given decisions; at the first undecided opcode branch
        let mut main = vec![];
        let mut call = vec![];
        let mut jump = vec![];
        let mut rc = Rc::new();
        let mut probs = [1024u16; 2 + 256];
        let mut prev = 0u8;
        let mut i = 0usize;
        let mut used = 0usize;
        while i < orig.len() {
            let b = orig[i];
            main.push(b);
            i += 1;
            let is_op = (b & 0xFE) == 0xE8 || (prev == 0x0F && (b & 0xF0) == 0x80);
            if !is_op {
                prev = b;
                continue;
            }
            let can_convert = orig.len() - i >= 4;
            let decision = if used < decisions.len() {
                decisions[used]
            } else if can_convert {
                // branch: explore both
                decisions.push(false);
                rec(orig, decisions, results, max);
                decisions.pop();
                decisions.push(true);
                rec(orig, decisions, results, max);
                decisions.pop();
                return;
            } else {
                decisions.push(false);
                let r = rec(orig, decisions, results, max);
                decisions.pop();
                return r;
            };
            used += 1;
            let idx = if b == 0xE8 { 2 + prev as usize } else if b == 0xE9 { 1 } else { 0 };
            rc.encode(&mut probs[idx], decision);
            if decision {
                let val = u32::from_le_bytes([orig[i], orig[i + 1], orig[i + 2], orig[i + 3]]);
                let abs = val.wrapping_add((i + 4) as u32);
                if b == 0xE8 {
                    call.extend_from_slice(&abs.to_be_bytes());
                } else {
                    jump.extend_from_slice(&abs.to_be_bytes());
                }
                i += 4;
                prev = orig[i - 1];
            } else {
                prev = b;
            }
        }
        let d: String = decisions.iter().map(|x| if *x { '1' } else { '0' }).collect();
        results.push(([main, call, jump, rc.finish()], d));
    }
    let mut decisions = vec![];
    rec(orig, &mut decisions, &mut results, max);
    results
}

fn bcj2_decode(streams: &[Vec<u8>; 4], size: usize, bufsize: usize) -> std::io::Result<Vec<u8>> {
    let inputs: Vec<&[u8]> = streams.iter().map(|s| s.as_slice()).collect();
    let mut r = BCJ2Reader::new(inputs, size as u64);
    let mut out = Vec::new();
    let mut buf = vec![0u8; bufsize];
    let mut guard = 0;
    loop {
        let n = r.read(&mut buf)?;
        if n == 0 {
            break;
        }
        out.extend_from_slice(&buf[..n]);
        guard += 1;
        if guard > 100_000 {
            return Err(std::io::Error::other("verif: endless"));
        }
    }
    Ok(out)
}

fn bcj2(cli: &Cli, rep: &Report, thorough: bool) {
    let alpha: [u8; 7] = [0xE8, 0xE9, 0x0F, 0x80, 0x00, 0xFF, 0x12];
    let l2 = if thorough { 8 } else { 7 };
    let n = gen::micro_count(7, l2);
    rep.extra("bcj2", json!({"alphabet": "E8,E9,0F,80,00,FF,12", "max_len": l2, "strings": n}));
    par_for_with(
        n,
        0,
        |_| (0u64, Vec::<u64>::new(), 0u64),
        |st, i| {
            let orig = gen::micro_nth(&alpha, i);
            if let Some(only) = &cli.only {
                let p = format!("C11|bcj2|{}|", hex(&orig));
                if !only.iter().any(|o| o.starts_with(&p)) {
                    return;
                }
            }
            let encs = bcj2_encodings(&orig, 4096);
            for (streams, decisions) in &encs {
                for bs in [4096usize, 1, 3, 5] {
                    let desc = || format!("C11|bcj2|{}|{}|buf{}", hex(&orig), decisions, bs);
                    if !cli.selected_with(desc) {
                        continue;
                    }
                    st.0 += 1;
                    let mk = |kind: &str, site: &str, detail: String| {
                        rep.violation(Violation::new(kind, site, desc()).attr("filter", "bcj2").attr("converted", decisions.contains('1').to_string()).detail(detail));
                    };
                    match catch(|| bcj2_decode(streams, orig.len(), bs)) {
                        Err(p) => mk("panic", &p.site(), format!("{}:{} {}", p.file, p.line, p.msg)),
                        Ok(Err(e)) => mk(
                            "rejected-valid",
                            &format!("BCJ2Reader rejects a correctly encoded input: {}", mc_core::run::normalise(&e.to_string())),
                            format!("main={} call={} jump={} rc={}", hex(&streams[0]), hex(&streams[1]), hex(&streams[2]), hex(&streams[3])),
                        ),
                        Ok(Ok(out)) => {
                            if out != orig {
                                mk(
                                    "wrong-bytes",
                                    "BCJ2Reader does not reconstruct the original",
                                    format!("got {} | main={} call={} jump={} rc={}", hex(&out), hex(&streams[0]), hex(&streams[1]), hex(&streams[2]), hex(&streams[3])),
                                );
                            } else if decisions.contains('1') {
                                st.1.push(hash_desc(&desc()));
                            }
                        }
                    }
                }
            }
            st.2 += encs.len() as u64;
        },
        |st| {
            rep.add_many(&[("evaluations", st.0), ("bcj2_runs", st.0), ("bcj2_encodings", st.2)]);
            rep.nontrivial_many(&st.1);
        },
    );
    // longer realistic input: x86 code with every call converted / none converted / alternating
    let code = gen::build(&[Seg::X(if thorough { 300_000 } else { 40_000 })], 1);
    for mode in 0..3 {
        let desc = format!("C11|bcj2|code{}|mode{}", code.len(), mode);
        if !cli.selected(&desc) {
            continue;
        }
        let streams = bcj2_encode_policy(&code, mode);
        rep.add("evaluations", 1);
        match catch(|| bcj2_decode(&streams, code.len(), 4096)) {
            Ok(Ok(out)) if out == code => rep.nontrivial(hash_desc(&desc)),
            other => rep.violation(
                Violation::new("wrong-bytes", "BCJ2Reader does not reconstruct real x86 code", desc.clone())
                    .attr("filter", "bcj2")
                    .attr("converted", "true")
                    .detail(format!("{:?}", other.map(|r| r.map(|o| o.len()).map_err(|e| e.to_string())).map_err(|p| p.msg))),
            ),
        }
    }
    // the four sources hand out at most c bytes per read call (the CALL/JUMP streams are consumed four bytes at a time,
    // so a refill can find 1-3 left-over bytes in the buffer)
    for mode in [0u32, 2] {
        let streams = bcj2_encode_policy(&code, mode);
        for chunk in [1usize, 2, 3, 4, 5, 6, 7, 9, 13, 4093] {
            let desc = format!("C11|bcj2|code{}|mode{}|src{}", code.len(), mode, chunk);
            if !cli.selected(&desc) {
                continue;
            }
            rep.add("evaluations", 1);
            let r = catch(|| -> std::io::Result<Vec<u8>> {
                let inputs: Vec<ChunkedSrc> = streams.iter().map(|s| ChunkedSrc { data: s, pos: 0, max: chunk }).collect();
                let mut r = BCJ2Reader::new(inputs, code.len() as u64);
                let mut out = Vec::new();
                let mut buf = vec![0u8; 4096];
                loop {
                    let n = r.read(&mut buf)?;
                    if n == 0 {
                        break;
                    }
                    out.extend_from_slice(&buf[..n]);
                    if out.len() > code.len() * 2 {
                        return Err(std::io::Error::other("verif: endless"));
                    }
                }
                Ok(out)
            });
            match r {
                Ok(Ok(out)) if out == code => rep.nontrivial(hash_desc(&desc)),
                other => rep.violation(
                    Violation::new("wrong-bytes", "BCJ2Reader output depends on how its sources split their reads", desc.clone())
                        .attr("filter", "bcj2")
                        .attr("converted", "true")
                        .detail(format!("{:?}", other.map(|r| r.map(|o| o.len()).map_err(|e| e.to_string())).map_err(|p| p.msg))),
                ),
            }
        }
    }
    rep.sample(json!({"bcj2_original": "e800000000ff", "decisions": "1", "streams": "main=e8ff call=00000005 jump= rc=..."}));
}

/// A source that hands out at most `max` bytes per read call.
struct ChunkedSrc<'a> {
    data: &'a [u8],
    pos: usize,
    max: usize,
}

impl Read for ChunkedSrc<'_> {
    fn read(&mut self, buf: &mut [u8]) -> std::io::Result<usize> {
        let n = buf.len().min(self.data.len() - self.pos).min(self.max);
        buf[..n].copy_from_slice(&self.data[self.pos..self.pos + n]);
        self.pos += n;
        Ok(n)
    }
}

/// Encode with a fixed policy: 0 = convert every opcode that can be, 1 = none, 2 = alternate.
pub(crate) fn bcj2_encode_policy(orig: &[u8], mode: u32) -> [Vec<u8>; 4] {
    let mut main = vec![];
    let mut call = vec![];
    let mut jump = vec![];
    let mut rc = Rc::new();
    let mut probs = [1024u16; 2 + 256];
    let mut prev = 0u8;
    let mut i = 0usize;
    let mut k = 0u32;
    while i < orig.len() {
        let b = orig[i];
        main.push(b);
        i += 1;
        let is_op = (b & 0xFE) == 0xE8 || (prev == 0x0F && (b & 0xF0) == 0x80);
        if !is_op {
            prev = b;
            continue;
        }
        k += 1;
        let can = orig.len() - i >= 4;
        let decision = can && match mode {
            0 => true,
            1 => false,
            _ => k % 2 == 0,
        };
        let idx = if b == 0xE8 { 2 + prev as usize } else if b == 0xE9 { 1 } else { 0 };
        rc.encode(&mut probs[idx], decision);
        if decision {
            let val = u32::from_le_bytes([orig[i], orig[i + 1], orig[i + 2], orig[i + 3]]);
            let abs = val.wrapping_add((i + 4) as u32);
            if b == 0xE8 {
                call.extend_from_slice(&abs.to_be_bytes());
            } else {
                jump.extend_from_slice(&abs.to_be_bytes());
            }
            i += 4;
            prev = orig[i - 1];
        } else {
            prev = b;
        }
    }
    [main, call, jump, rc.finish()]
}

/// Debug helper: shortest prefix of real code for which the alternating policy fails.
pub fn debug_bcj2() {
    let code = gen::build(&[Seg::X(40_000)], 1);
    for n in 1..code.len() {
        let orig = &code[..n];
        for mode in 0..3 {
            let streams = bcj2_encode_policy(orig, mode);
            for bs in [4096usize] {
                match bcj2_decode(&streams, orig.len(), bs) {
                    Ok(out) if out == orig => {}
                    other => {
                        println!("n={n} mode={mode} bs={bs}: {:?}", other.map(|o| o.len()).map_err(|e| e.to_string()));
                        println!("tail of orig: {}", hex(&orig[n.saturating_sub(24)..]));
                        println!("streams: main {} call {} jump {} rc {}", streams[0].len(), streams[1].len(), streams[2].len(), streams[3].len());
                        return;
                    }
                }
            }
        }
    }
    println!("no failure");
}
