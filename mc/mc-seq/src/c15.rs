//! C15 — unsafe fast paths stay inside their buffers. Monitor (a): the cfg-gated shadow
//! assertions restate the bounds precondition in safe code immediately before every unsafe
//! access; this check drives the encoder and decoder domains through them and fails exactly when
//! one fires. (The same binary built with AddressSanitizer is monitor (b), driven by ./check.)

use crate::c01;
use crate::c04::{decode_with, Rd};
use crate::codec::{self, Container, Opts};
use crate::common::*;
use crate::corpus;
use lzma_rust2::verif::bias;
use mc_core::gen::{self, Seg};
use mc_core::run::{catch, par_for_with, Cli};
use mc_core::{Report, Violation};
use serde_json::json;

const SHADOW: &str = "verif shadow bounds check failed";

fn report(rep: &Report, p: &mc_core::run::PanicInfo, case: String, side: &str) {
    if p.msg.starts_with(SHADOW) {
        rep.violation(Violation::new("out-of-bounds", p.msg.clone(), case).attr("side", side).attr("monitor", "shadow").detail(format!("{}:{}", p.file, p.line)));
    } else {
        // other panics are C01/C06's business; counted so that they are visible
        rep.add("other_panics", 1);
    }
}

pub fn run(cli: &Cli, rep: &Report) {
    let thorough = cli.thorough();
    let asan = std::env::var_os("VERIF_ASAN").is_some();
    rep.rule(
        "encoder domain: MICRO(A3,4) x reduced option grid x {LZMA, LZMA2}, mechanism-forcing shapes (matches touching both ends of the window, window moves, finishing with < 8 bytes left, 273-byte matches at the \
         buffer end) x 8 option vectors, biased-start renormalisation cases; decoder domain: every single-fault byte mutant of every LZMA2-based corpus file (small files: all; medium files: stride 97) and truncations, \
         which drive decode_direct_bits to and beyond the end of the chunk buffer; monitor: safe-code assertions before each unsafe access (get_unchecked ranges, read_unaligned words, clamped u16 reads, asm pos/limit); \
         non-trivial = a case in which at least one unsafe access was executed (counted by the hook counters)",
    );
    rep.assumption("a monitor over an exhaustive bounded exploration, not a proof of memory safety; the inline assembly's own loads are covered by the pos/limit precondition and (thorough) by valgrind/ASan runs of the same cases");
    if asan {
        rep.assumption("this run executed under AddressSanitizer (nightly, -Zsanitizer=address): any out-of-bounds heap access aborts the process and is reported by the driver");
    }

    // ---------------- encoder
    struct E {
        cont: Container,
        o: Opts,
        input: Input,
        bias: i32,
    }
    let mut ecases: Vec<E> = vec![];
    // under AddressSanitizer every allocation is an mmap: a stated 1/20 of the domain is run there
    let l = if asan { 2 } else if thorough { 4 } else { 3 };
    let g: Vec<Opts> = grid().into_iter().filter(|o| o.depth == 0 || o.depth == 4).filter(|o| o.nice != 32).filter(|o| !asan || (o.dict == 4096 && o.pb == 2)).collect();
    for s in 0..gen::micro_count(3, l) {
        for o in &g {
            for c in [Container::LzmaRawMarker, Container::Lzma2] {
                if c.accepts(o) {
                    ecases.push(E { cont: c, o: *o, input: Input::Bytes(gen::micro_nth(&A3, s)), bias: 0 });
                }
            }
        }
    }
    let mut shapes: Vec<Vec<Seg>> = vec![
        vec![Seg::C(9000)],
        vec![Seg::Z(273), Seg::L(vec![1]), Seg::Z(273)],
        vec![Seg::Z(4096), Seg::L(vec![1, 2, 3]), Seg::D(4099, 4096)],
        vec![Seg::C(5000), Seg::D(4096, 273), Seg::D(1, 7)],
        vec![Seg::X(20_000)],
        vec![Seg::C(300_000)],
        vec![Seg::P(7, 280_000), Seg::C(20_000)],
        vec![Seg::R(70_000), Seg::D(65_000, 5000)],
    ];
    // matches at the maximum distance at every position across window moves (see C01)
    if !asan {
        for (d, total) in [(4096usize, 300_000usize), (65536, 450_000)] {
            for k in [0usize, 1, 16] {
                shapes.push(vec![Seg::R(d - k), Seg::D(d - k, total)]);
            }
        }
    }
    for tail in 0..9usize {
        // finishing with 0..8 bytes after a long match
        shapes.push(vec![Seg::C(1000), Seg::D(500, 400), Seg::L((0..tail as u8).collect())]);
    }
    for sh in &shapes {
        for o in minigrid(if asan { &[4096] } else { &[4096, 65536] }) {
            for c in [Container::LzmaRawMarker, Container::Lzma2, Container::Lzma2Preset(300)] {
                if c.accepts(&o) {
                    ecases.push(E { cont: c, o, input: Input::Shape(sh.clone()), bias: 0 });
                }
            }
        }
    }
    for back in [1i32, 5000] {
        for sh in [vec![Seg::C(9000)], vec![Seg::X(12_000)]] {
            for o in minigrid(&[4096, 65536]) {
                ecases.push(E { cont: Container::Lzma2, o, input: Input::Shape(sh.clone()), bias: 0x7FFF_FFFF - back });
            }
        }
    }
    rep.extra("encoder_cases", json!(ecases.len()));
    let mut biases: Vec<i32> = ecases.iter().map(|e| e.bias).collect();
    biases.sort_unstable();
    biases.dedup();
    for b in biases {
        bias::set(b);
        let idx: Vec<usize> = (0..ecases.len()).filter(|i| ecases[*i].bias == b).collect();
        par_for_with(
            idx.len(),
            0,
            |_| (0u64, Vec::<u64>::new()),
            |st, k| {
                let e = &ecases[idx[k]];
                let desc = || format!("C15|enc|{}|{}|bias{}|{}", e.cont.desc(), e.o.desc(), e.bias, e.input.desc());
                if !cli.selected_with(desc) {
                    return;
                }
                st.0 += 1;
                let input = e.input.build(cli.seed);
                match catch(|| codec::encode(&e.cont, &e.o, &input, &[])) {
                    Err(p) => report(rep, &p, desc(), "encoder"),
                    Ok(_) => {
                        if input.len() >= 2 {
                            st.1.push(hash_desc(&desc()));
                        }
                    }
                }
            },
            |st| {
                rep.add_many(&[("evaluations", st.0), ("encoder_runs", st.0)]);
                rep.nontrivial_many(&st.1);
                flush_cov(rep);
            },
        );
    }
    bias::set(0);

    // ---------------- decoder: mutants of LZMA2-based streams (buffer range decoder => asm path)
    let mut items: Vec<corpus::Item> = corpus::small().into_iter().filter(|it| it.cont.is_lzma2_based()).collect();
    if !asan {
        items.extend(corpus::medium().into_iter().filter(|it| it.cont.is_lzma2_based()));
    } else {
        items.truncate(6);
        items.extend(corpus::medium().into_iter().filter(|it| it.cont.is_lzma2_based()).take(1));
    }
    rep.extra("decoder_corpus", json!(items.iter().map(|i| format!("{} ({} bytes)", i.name, i.bytes.len())).collect::<Vec<_>>()));
    // work units: (item, position range), so that the large files are spread over all workers
    let mut units: Vec<(usize, usize, usize)> = vec![];
    for (ii, it) in items.iter().enumerate() {
        let n = it.bytes.len();
        let step = if n > 4096 { 2048 } else { n.max(1) };
        let mut lo = 0;
        while lo < n {
            units.push((ii, lo, (lo + step).min(n)));
            lo += step;
        }
    }
    units.sort_by_key(|u| std::cmp::Reverse(items[u.0].bytes.len()));
    par_for_with(
        units.len(),
        1,
        |_| (0u64, Vec::<u64>::new()),
        |st, ui| {
            let (ii, lo, hi) = units[ui];
            let it = &items[ii];
            let stride = if it.bytes.len() > 4096 { if asan { 997 } else if thorough { 13 } else { 97 } } else if asan { 3 } else { 1 };
            crate::c04::byte_mutants_range(&it.bytes, stride, lo, hi, |m| {
                if m.class == "duplicate" || m.class == "transpose" || m.class == "insert" {
                    return; // bit flips, substitutions, deletions and truncations reach the same code
                }
                let desc = || format!("C15|dec|{}|{}", it.name, m.desc);
                if !cli.selected_with(desc) {
                    return;
                }
                st.0 += 1;
                let limit = it.input.len() * 4 + 65536;
                let r = match &it.cont {
                    Container::Xz { .. } => catch(|| decode_with(Rd::XzMulti, &m.bytes, limit).map(|_| ())),
                    _ => catch(|| codec::decode(&it.cont, &it.opts, &m.bytes, it.input.len()).map(|_| ())),
                };
                match r {
                    Err(p) => report(rep, &p, desc(), "decoder"),
                    Ok(_) => st.1.push(hash_desc(&desc())),
                }
            });
        },
        |st| {
            rep.add_many(&[("evaluations", st.0), ("decoder_runs", st.0)]);
            rep.nontrivial_many(&st.1);
            flush_cov(rep);
        },
    );
    if cli.only.is_none() {
        for (name, what) in [("cov.extend_match_unsafe", "extend_match unsafe slices"), ("cov.direct_bits_asm", "assembly decode_direct_bits")] {
            if rep.get(name) == 0 {
                rep.machinery_error(format!("vacuous: {what} never executed ({name} = 0)"));
            }
        }
    }
    rep.sample(json!({"encoder": "lzma2 dict 4096 Normal/BT4, shape C1000+D500x400+L000102 (3 bytes left after a long match)"}));
    rep.sample(json!({"decoder": "xz-c4-70k-raw, flip@65540.3"}));
    let _ = c01::Case { cont: Container::Lzma2, opts: Opts::small(), input: Input::Bytes(vec![]), ops: vec![], bias: 0 };
}
