//! C15 — unsafe fast paths stay inside their buffers. Three monitors over one exhaustive bounded
//! domain of encoder inputs and hostile decoder inputs:
//!  (a) the cfg-gated shadow assertions restate the bounds precondition in safe code immediately
//!      before every unsafe access and panic when it does not hold;
//!  (b) guard pages: the cases run in child processes whose allocator gives every buffer of
//!      >= 1 KiB its own mapping with an inaccessible page directly behind its last byte (pass
//!      "after") or directly in front of its first byte (pass "before"), so that any access
//!      outside the allocation — raw pointer, unchecked slice, SIMD or assembly — kills the child
//!      with SIGSEGV, which the parent attributes to the case in flight;
//!  (c) thorough tier: the same binary built with AddressSanitizer (driven by ./check), in-process.

use crate::c04::{decode_with, Rd};
use crate::codec::{self, Container, Opts};
use crate::common::*;
use crate::corpus;
use crate::iso::{self, IsoCheck};
use lzma_rust2::verif::bias;
use mc_core::alloc;
use mc_core::gen::{self, Seg};
use mc_core::run::{catch, par_for_with, Cli};
use mc_core::{Report, Violation};
use serde_json::json;

const SHADOW: &str = "verif shadow bounds check failed";

struct E {
    cont: Container,
    o: Opts,
    input: Input,
    bias: i32,
}

struct Domain {
    ecases: Vec<E>,
    items: Vec<corpus::Item>,
    /// (item, first position, end position) — one work unit of decoder mutants
    units: Vec<(usize, usize, usize)>,
    thorough: bool,
    asan: bool,
    slow: bool,
    seed: u64,
    windows: Vec<(String, usize)>,
}

/// Size of the encoder's window buffer for (container, options): the largest byte-buffer
/// (alignment 1) request made while encoding three bytes.
fn window_size(cont: &Container, o: &Opts) -> usize {
    alloc::begin();
    let _ = catch(|| codec::encode(cont, o, &[1, 2, 3], &[]));
    alloc::biggest_bytes_request()
}

/// The unoptimised build (profile guard0) runs a reduced domain: it is 10-30x slower.
fn slow_build() -> bool {
    std::env::var_os("VERIF_SLOW_BUILD").is_some()
}

fn build(thorough: bool, asan: bool, seed: u64) -> Domain {
    let slow = slow_build();
    let mut ecases: Vec<E> = vec![];
    // under AddressSanitizer every allocation is an mmap: a stated 1/20 of the domain is run there
    let l = if asan { 2 } else if slow && !thorough { 3 } else if thorough && !slow { 5 } else { 4 };
    // lc/lp/pb only select probability tables (safe code): three representative triples; the dimensions that reach the
    // unsafe code (dictionary size, mode, match finder, nice length, depth) are kept in full
    let g: Vec<Opts> = grid()
        .into_iter()
        .filter(|o| o.depth == 0 || o.depth == 4)
        .filter(|o| o.nice != 32)
        .filter(|o| matches!((o.lc, o.lp, o.pb), (3, 0, 2) | (0, 4, 4) | (4, 0, 0)))
        .filter(|o| !asan || (o.dict == 4096 && o.pb == 2))
        .collect();
    for s in 0..gen::micro_count(3, l) {
        for o in &g {
            for c in [Container::LzmaRawMarker, Container::Lzma2] {
                if c.accepts(o) {
                    ecases.push(E { cont: c, o: *o, input: Input::Bytes(gen::micro_nth(&A3, s)), bias: 0 });
                }
            }
        }
    }
    let mut shapes: Vec<Vec<Seg>> = vec![
        vec![Seg::C(9000)],
        vec![Seg::Z(273), Seg::L(vec![1]), Seg::Z(273)],
        vec![Seg::Z(4096), Seg::L(vec![1, 2, 3]), Seg::D(4099, 4096)],
        vec![Seg::C(5000), Seg::D(4096, 273), Seg::D(1, 7)],
        vec![Seg::X(20_000)],
        vec![Seg::C(300_000)],
        vec![Seg::P(7, 280_000), Seg::C(20_000)],
        vec![Seg::R(70_000), Seg::D(65_000, 5000)],
    ];
    // matches at the maximum distance at every position across window moves (see C01)
    if !asan {
        for (d, total) in [(4096usize, 300_000usize), (65536, 450_000)] {
            for k in [0usize, 1, 16] {
                shapes.push(vec![Seg::R(d - k), Seg::D(d - k, total)]);
            }
        }
    }
    for tail in 0..9usize {
        // finishing with 0..8 bytes after a long match
        shapes.push(vec![Seg::C(1000), Seg::D(500, 400), Seg::L((0..tail as u8).collect())]);
    }
    let dicts: &[u32] = if asan { &[4096] } else { &[4096, 65536] };
    for sh in &shapes {
        for o in minigrid(dicts) {
            for c in [Container::LzmaRawMarker, Container::Lzma2, Container::Lzma2Preset(300)] {
                let big: usize = sh.iter().map(|g| g.len()).sum();
                if slow && !thorough && big > 100_000 && (matches!(c, Container::Lzma2Preset(_)) || !(o.fast || o.dict == 4096)) {
                    continue; // the unoptimised build runs the long shapes with 5 of the 8 option vectors, without preset
                }
                if c.accepts(&o) {
                    ecases.push(E { cont: c, o, input: Input::Shape(sh.clone()), bias: 0 });
                }
            }
        }
    }
    // the window buffer exactly full (and one byte around it) when the stream is finished, with matches that run
    // to the last byte: the only situation in which "one past the match" is also one past the allocation
    let mut windows = vec![];
    for o in minigrid(dicts) {
        for c in [Container::LzmaRawMarker, Container::Lzma2] {
            if !c.accepts(&o) {
                continue;
            }
            let b = window_size(&c, &o);
            windows.push((format!("{}|{}", c.desc(), o.desc()), b));
            if b < 4096 {
                continue;
            }
            let deltas: Vec<i64> = if asan { vec![-1, 0, 1] } else if slow && !thorough { vec![-8, -1, 0, 1] } else { (-9..=1).collect() };
            for delta in deltas {
                let total = (b as i64 + delta) as usize;
                let d = o.dict as usize;
                let mut tails = vec![vec![Seg::R(64), Seg::P(3, total - 64)], vec![Seg::Z(total)]];
                if total > d + 8 {
                    tails.push(vec![Seg::R(d), Seg::D(d, total - d)]);
                }
                for sh in tails {
                    ecases.push(E { cont: c.clone(), o, input: Input::Shape(sh), bias: 0 });
                }
            }
        }
    }
    for back in [1i32, 5000] {
        for sh in [vec![Seg::C(9000)], vec![Seg::X(12_000)]] {
            for o in minigrid(&[4096, 65536]) {
                ecases.push(E { cont: Container::Lzma2, o, input: Input::Shape(sh.clone()), bias: 0x7FFF_FFFF - back });
            }
        }
    }

    // decoder: mutants of LZMA2-based streams (buffer range decoder => asm path)
    let mut items: Vec<corpus::Item> = corpus::small().into_iter().filter(|it| it.cont.is_lzma2_based()).collect();
    if !asan {
        items.extend(corpus::medium().into_iter().filter(|it| it.cont.is_lzma2_based()));
    } else {
        items.truncate(6);
        items.extend(corpus::medium().into_iter().filter(|it| it.cont.is_lzma2_based()).take(1));
    }
    // work units: (item, position range), so that the large files are spread over all workers
    let mut units: Vec<(usize, usize, usize)> = vec![];
    for (ii, it) in items.iter().enumerate() {
        let n = it.bytes.len();
        let step = if n > 4096 { 512 } else { 64 };
        let mut lo = 0;
        while lo < n {
            units.push((ii, lo, (lo + step).min(n)));
            lo += step;
        }
    }
    units.sort_by_key(|u| std::cmp::Reverse(items[u.0].bytes.len()));
    Domain { ecases, items, units, thorough, asan, slow, seed, windows }
}

impl Domain {
    fn enc_desc(&self, i: usize) -> String {
        let e = &self.ecases[i];
        format!("C15|enc|{}|{}|bias{}|{}", e.cont.desc(), e.o.desc(), e.bias, e.input.desc())
    }

    fn unit_desc(&self, ui: usize) -> String {
        let (ii, lo, hi) = self.units[ui];
        format!("C15|dec|{}|positions{}..{}", self.items[ii].name, lo, hi)
    }

    /// one encoder case (the position bias must already be set); true = non-trivial
    fn run_enc(&self, i: usize, rep: &Report, case: &str) -> bool {
        let e = &self.ecases[i];
        let input = e.input.build(self.seed);
        match catch(|| codec::encode(&e.cont, &e.o, &input, &[])) {
            Err(p) => {
                report(rep, &p, case.to_string(), "encoder", "");
                false
            }
            Ok(_) => input.len() >= 2,
        }
    }

    /// all decoder mutants of one unit; `sel` filters single mutants (in-process replays);
    /// `unit_case` = report violations under the unit's descriptor (child processes)
    fn run_unit(&self, ui: usize, rep: &Report, sel: &dyn Fn(&str) -> bool, unit_case: bool, nontrivial: &mut Vec<u64>) -> u64 {
        let (ii, lo, hi) = self.units[ui];
        let it = &self.items[ii];
        let big = it.bytes.len() > 4096;
        let stride = match (big, self.asan, self.slow, self.thorough) {
            (true, true, _, _) => 997,
            (true, _, true, false) => 389,
            (true, _, true, true) => 97,
            (true, _, false, true) => 13,
            (true, _, false, false) => 97,
            (false, true, _, _) => 3,
            (false, _, true, false) => 3,
            (false, _, _, _) => 1,
        };
        let mut n = 0u64;
        crate::c04::byte_mutants_range(&it.bytes, stride, lo, hi, |m| {
            if m.class == "duplicate" || m.class == "transpose" || m.class == "insert" {
                return; // bit flips, substitutions, deletions and truncations reach the same code
            }
            let desc = format!("C15|dec|{}|{}", it.name, m.desc);
            if !sel(&desc) {
                return;
            }
            n += 1;
            let limit = it.input.len() * 4 + 65536;
            let r = match &it.cont {
                Container::Xz { .. } => catch(|| decode_with(Rd::XzMulti, &m.bytes, limit).map(|_| ())),
                _ => catch(|| codec::decode(&it.cont, &it.opts, &m.bytes, it.input.len()).map(|_| ())),
            };
            match r {
                Err(p) => {
                    if unit_case {
                        report(rep, &p, self.unit_desc(ui), "decoder", &desc)
                    } else {
                        report(rep, &p, desc, "decoder", "")
                    }
                }
                Ok(_) => nontrivial.push(hash_desc(&desc)),
            }
        });
        n
    }
}

fn report(rep: &Report, p: &mc_core::run::PanicInfo, case: String, side: &str, inner: &str) {
    if p.msg.starts_with(SHADOW) {
        rep.violation(Violation::new("out-of-bounds", p.msg.clone(), case).attr("side", side).attr("monitor", "shadow").detail(format!("{}:{} {}", p.file, p.line, inner)));
    } else {
        // other panics are C01/C06's business; counted so that they are visible
        rep.add("other_panics", 1);
    }
}

impl IsoCheck for Domain {
    fn n_cases(&self) -> usize {
        self.ecases.len() + self.units.len()
    }
    // index order: decoder units first (the longest cases), then the encoder cases
    fn desc(&self, i: usize) -> String {
        if i < self.units.len() {
            self.unit_desc(i)
        } else {
            self.enc_desc(i - self.units.len())
        }
    }
    fn run(&self, i: usize, rep: &Report) -> bool {
        let g0 = alloc::guarded_allocations();
        let nt = if i >= self.units.len() {
            let i = i - self.units.len();
            bias::set(self.ecases[i].bias);
            let nt = self.run_enc(i, rep, &self.enc_desc(i));
            bias::set(0);
            rep.add("encoder_runs", 1);
            nt
        } else {
            let mut v = vec![];
            let n = self.run_unit(i, rep, &|_| true, true, &mut v);
            rep.add("decoder_runs", n);
            !v.is_empty()
        };
        rep.add(&format!("guard.{}.allocations", alloc::guard_mode_name()), alloc::guarded_allocations() - g0);
        rep.add(&format!("guard.{}.cases", alloc::guard_mode_name()), 1);
        flush_cov(rep);
        nt
    }
    fn attrs(&self, i: usize) -> Vec<(String, String)> {
        vec![("side".into(), if i >= self.units.len() { "encoder" } else { "decoder" }.into()), ("monitor".into(), "guard-page".into())]
    }
}

pub fn run(cli: &Cli, rep: &Report) {
    let thorough = cli.thorough();
    let asan = std::env::var_os("VERIF_ASAN").is_some();
    rep.rule(
        "encoder domain: MICRO(A3,4) (thorough: 5) x option grid {4 dictionary sizes x 3 lc/lp/pb triples x nice {8,273} x mode x match finder x depth {0,4}} x {LZMA, LZMA2}, mechanism-forcing shapes (matches touching both ends of the window, maximum-distance matches across window moves, finishing with < 8 bytes left, \
         273-byte matches at the buffer end, the window buffer exactly full +1/-9 bytes at finish with matches running to the last byte) x 8 option vectors, biased-start renormalisation cases; decoder domain: every \
         single-fault byte mutant of every LZMA2-based corpus file (small files: all; medium files: stride 97) and truncations, which drive decode_direct_bits to and beyond the end of the chunk buffer; monitors: (a) safe-code \
         assertions before each unsafe access (get_unchecked ranges, read_unaligned words, clamped u16 reads, asm pos/limit), (b) guard pages directly behind (pass 1) and in front of (pass 2) every heap block >= 1 KiB, \
         in child processes, death attributed to the case in flight; non-trivial = a case that ran to a verdict with at least 2 input bytes / a decoder mutant that returned",
    );
    rep.assumption("a monitor over an exhaustive bounded exploration, not a proof of memory safety; blocks smaller than 1 KiB and the slack that alignment > 1 leaves behind a block are not guarded (byte buffers have none)");
    if asan {
        rep.assumption("this run executed under AddressSanitizer (nightly, -Zsanitizer=address), in-process: any out-of-bounds heap access aborts the process and is reported by the driver");
    }
    let d = build(thorough, asan, cli.seed);
    rep.extra("encoder_cases", json!(d.ecases.len()));
    rep.extra("decoder_units", json!(d.units.len()));
    rep.extra("decoder_corpus", json!(d.items.iter().map(|i| format!("{} ({} bytes)", i.name, i.bytes.len())).collect::<Vec<_>>()));
    rep.extra("encoder_window_sizes", json!(d.windows));
    let d: &'static Domain = Box::leak(Box::new(d));

    if !asan {
        // in a child process the first call runs the cases and never returns
        let passes = std::env::var("VERIF_C15_PASSES").unwrap_or_else(|_| "after,before".into());
        let passes: Vec<&str> = passes.split(',').filter(|p| *p == "after" || *p == "before").collect();
        rep.extra("guard_passes", json!(passes));
        rep.extra("build", json!(if slow_build() { "unoptimised (opt-level 0): every source-level load is executed" } else { "optimised (opt-level 2)" }));
        for p in &passes {
            iso::run_isolated_env(cli, rep, d, &[("VERIF_GUARD", p)]);
        }
        if cli.only.is_none() {
            for mode in passes {
                if rep.get(&format!("guard.{mode}.allocations")) == 0 {
                    rep.machinery_error(format!("vacuous: no allocation was guarded in pass '{mode}'"));
                }
            }
        }
    } else {
        run_in_process(cli, rep, d);
    }
    if cli.only.is_none() {
        for (name, what) in [("cov.extend_match_unsafe", "extend_match unsafe slices"), ("cov.direct_bits_asm", "assembly decode_direct_bits")] {
            if rep.get(name) == 0 {
                rep.machinery_error(format!("vacuous: {what} never executed ({name} = 0)"));
            }
        }
    }
    rep.sample(json!({"encoder": "lzma2 dict 4096 Normal/BT4, shape C1000+D500x400+L000102 (3 bytes left after a long match)"}));
    rep.sample(json!({"decoder": "xz-c4-70k-raw, positions 65536..67584"}));
}

/// The AddressSanitizer build runs the (reduced) domain on threads of one process.
fn run_in_process(cli: &Cli, rep: &Report, d: &'static Domain) {
    let mut biases: Vec<i32> = d.ecases.iter().map(|e| e.bias).collect();
    biases.sort_unstable();
    biases.dedup();
    for b in biases {
        bias::set(b);
        let idx: Vec<usize> = (0..d.ecases.len()).filter(|i| d.ecases[*i].bias == b).collect();
        par_for_with(
            idx.len(),
            0,
            |_| (0u64, Vec::<u64>::new()),
            |st, k| {
                let i = idx[k];
                if !cli.selected_with(|| d.enc_desc(i)) {
                    return;
                }
                st.0 += 1;
                let desc = d.enc_desc(i);
                if d.run_enc(i, rep, &desc) {
                    st.1.push(hash_desc(&desc));
                }
            },
            |st| {
                rep.add_many(&[("evaluations", st.0), ("encoder_runs", st.0)]);
                rep.nontrivial_many(&st.1);
                flush_cov(rep);
            },
        );
    }
    bias::set(0);
    par_for_with(
        d.units.len(),
        1,
        |_| (0u64, Vec::<u64>::new()),
        |st, ui| {
            let mut v = vec![];
            st.0 += d.run_unit(ui, rep, &|desc| cli.selected(desc), false, &mut v);
            st.1.extend(v);
        },
        |st| {
            rep.add_many(&[("evaluations", st.0), ("decoder_runs", st.0)]);
            rep.nontrivial_many(&st.1);
            flush_cov(rep);
        },
    );
}
