//! CORPUS: small well-formed files produced by the crate's writers (and by liblzma), used as
//! starting points for the fault/corruption/truncation/trailing-data checks.

use crate::codec::{self, Bcj, Container, Filt, Op, Opts};
use crate::refimpl;
use mc_core::gen::{self, Seg};

#[derive(Clone)]
pub struct Item {
    pub name: String,
    pub cont: Container,
    pub opts: Opts,
    pub input: Vec<u8>,
    pub bytes: Vec<u8>,
    /// produced by liblzma rather than by the crate
    pub foreign: bool,
}

fn mk(name: &str, cont: Container, opts: Opts, segs: &[Seg], ops: &[Op]) -> Option<Item> {
    let input = gen::build(segs, 1);
    let bytes = mc_core::run::catch(|| codec::encode(&cont, &opts, &input, ops)).ok()?.ok()?;
    // only keep files the crate itself can read back (defects of the writers are C02's business)
    let back = mc_core::run::catch(|| codec::decode(&cont, &opts, &bytes, input.len())).ok()?.ok()?;
    if back != input {
        return None;
    }
    Some(Item { name: name.to_string(), cont, opts, input, bytes, foreign: false })
}

pub fn xz(check: u8, block: Option<u64>, filters: Vec<Filt>) -> Container {
    Container::Xz { check, block, filters }
}

/// ~40 small files (60..600 bytes).
pub fn small() -> Vec<Item> {
    let o = Opts::small();
    let mut v: Vec<Option<Item>> = vec![];
    let text = [Seg::C(120)];
    let three_blocks = [Seg::P(5, 9000)];
    let wr3 = [Op::Write(4096), Op::Write(4096)];
    for check in [1u8, 4, 10, 0] {
        v.push(mk(&format!("xz-c{check}-1blk"), xz(check, None, vec![]), o, &text, &[]));
        v.push(mk(&format!("xz-c{check}-3blk"), xz(check, Some(1), vec![]), o, &three_blocks, &wr3));
    }
    v.push(mk("xz-c4-3blk-uneq", xz(4, Some(1), vec![]), o, &[Seg::P(5, 4096), Seg::C(4096), Seg::Z(808)], &wr3));
    v.push(mk("xz-c1-1byte", xz(1, None, vec![]), o, &[Seg::L(vec![0x61])], &[]));
    v.push(mk("xz-c4-delta", xz(4, None, vec![Filt::Delta(3)]), o, &text, &[]));
    v.push(mk("xz-c1-x86", xz(1, None, vec![Filt::Bcj(Bcj::X86, 0)]), o, &[Seg::X(200)], &[]));
    v.push(mk("xz-c1-arm-delta", xz(1, None, vec![Filt::Delta(1), Filt::Bcj(Bcj::Arm, 16)]), o, &[Seg::X(200)], &[]));
    v.push(mk("xz-c10-2blk-delta", xz(10, Some(1), vec![Filt::Delta(256)]), o, &[Seg::Z(5000)], &[Op::Write(4096)]));
    v.push(mk("xz-c1-raw", xz(1, None, vec![]), o, &[Seg::R(90)], &[]));
    v.push(mk("lzip-1m", Container::Lzip { member: None }, o, &text, &[]));
    v.push(mk("lzip-1byte", Container::Lzip { member: None }, o, &[Seg::L(vec![0x61])], &[]));
    v.push(mk("lzip-3m", Container::Lzip { member: Some(1) }, o, &three_blocks, &[]));
    v.push(mk("lzip-2m-raw", Container::Lzip { member: Some(1) }, o, &[Seg::R(60), Seg::Z(4100)], &[]));
    v.push(mk("lzma-hdr-marker", Container::LzmaHdrMarker, o, &text, &[]));
    v.push(mk("lzma-hdr-size", Container::LzmaHdrSize, o, &text, &[]));
    v.push(mk("lzma-raw-marker", Container::LzmaRawMarker, o, &text, &[]));
    v.push(mk("lzma-raw-size", Container::LzmaRawSize, o, &text, &[]));
    v.push(mk("lzma2-text", Container::Lzma2, o, &text, &[]));
    v.push(mk("lzma2-raw", Container::Lzma2, o, &[Seg::R(80)], &[]));
    v.push(mk("lzma2-mixed", Container::Lzma2, o, &[Seg::R(40), Seg::Z(300), Seg::C(100)], &[Op::Write(40), Op::Flush, Op::Write(300), Op::Flush]));
    v.push(mk("lzma2-chunks", Container::Lzma2Chunk(1), o, &[Seg::P(3, 9000)], &[Op::Write(4096), Op::Flush, Op::Write(4096), Op::Flush]));
    let mut out: Vec<Item> = v.into_iter().flatten().collect();

    // LZIP file with an empty member in the middle (members written separately and concatenated)
    {
        let a = codec::encode(&Container::Lzip { member: None }, &o, b"first member ", &[]).unwrap();
        let e = codec::encode(&Container::Lzip { member: None }, &o, b"", &[]).unwrap();
        let c = codec::encode(&Container::Lzip { member: None }, &o, b"third", &[]).unwrap();
        let mut bytes = a.clone();
        bytes.extend_from_slice(&e);
        bytes.extend_from_slice(&c);
        out.push(Item {
            name: "lzip-3m-empty-middle".into(),
            cont: Container::Lzip { member: None },
            opts: o,
            input: b"first member third".to_vec(),
            bytes,
            foreign: false,
        });
    }
    // liblzma-made files
    let t = gen::build(&text, 1);
    for (name, check, pre) in [
        ("ref-xz-c4", 4u8, vec![]),
        ("ref-xz-c1-x86", 1, vec![Filt::Bcj(Bcj::X86, 0)]),
        ("ref-xz-c10-delta", 10, vec![Filt::Delta(2)]),
    ] {
        if let Ok(bytes) = refimpl::xz_encode(&t, &o, check, &pre) {
            out.push(Item { name: name.into(), cont: xz(check, None, pre.clone()), opts: o, input: t.clone(), bytes, foreign: true });
        }
    }
    if let Ok(bytes) = refimpl::alone_encode(&t, &o) {
        out.push(Item { name: "ref-alone".into(), cont: Container::LzmaHdrMarker, opts: o, input: t.clone(), bytes, foreign: true });
    }
    if let Ok(bytes) = refimpl::raw_lzma2_encode(&t, &o, &[]) {
        out.push(Item { name: "ref-raw-lzma2".into(), cont: Container::Lzma2, opts: o, input: t.clone(), bytes, foreign: true });
    }
    out
}

/// A few medium files (~70 KiB compressed) that cross the 64 KiB LZMA2 chunk buffer and the
/// 4096-byte BCJ buffer.
pub fn medium() -> Vec<Item> {
    let o = Opts { dict: 65536, ..Opts::small() };
    let mut v = vec![];
    v.push(mk("xz-c4-70k-raw", xz(4, None, vec![]), o, &[Seg::R(70_000)], &[]));
    v.push(mk("xz-c1-x86-200k", xz(1, None, vec![Filt::Bcj(Bcj::X86, 0)]), o, &[Seg::X(200_000)], &[]));
    v.push(mk("lzip-70k-raw", Container::Lzip { member: None }, o, &[Seg::R(70_000)], &[]));
    v.push(mk("lzma2-mixed-150k", Container::Lzma2, o, &[Seg::C(20_000), Seg::R(70_000), Seg::X(60_000)], &[]));
    v.into_iter().flatten().collect()
}
