//! C19 — a writer that reports success has produced a decodable stream (boundary grid of every
//! public option field, star + full products inside interacting groups), in child processes.

use crate::codec::{self, Bcj, Filt};
use crate::common::*;
use crate::iso::{self, IsoCheck};
use lzma_rust2::verif::{FilterConfig, FilterType};
use lzma_rust2::{
    CheckType, EncodeMode, LZIPOptions, LZIPReader, LZIPReaderMT, LZIPWriter, LZIPWriterMT, LZMA2Options, LZMA2Reader, LZMA2ReaderMT, LZMA2Writer, LZMA2WriterMT, LZMAOptions, LZMAReader,
    LZMAWriter, MFType, XZOptions, XZReader, XZWriter,
};
use mc_core::gen::{self, Seg};
use mc_core::report::brief;
use mc_core::run::{catch, Cli};
use mc_core::{Report, Violation};
use serde_json::json;
use std::io::{self, Cursor, Read, Write};
use std::num::NonZeroU64;

#[derive(Clone, Copy, Debug, PartialEq, Eq)]
pub enum W {
    LzmaHdr,
    LzmaRaw,
    Lzma2,
    Lzma2Mt,
    Xz,
    Lzip,
    LzipMt,
}
const WRITERS: [W; 7] = [W::LzmaHdr, W::LzmaRaw, W::Lzma2, W::Lzma2Mt, W::Xz, W::Lzip, W::LzipMt];

#[derive(Clone, Debug)]
pub struct O {
    pub dict: u32,
    pub lc: u32,
    pub lp: u32,
    pub pb: u32,
    pub fast: bool,
    pub bt4: bool,
    pub nice: u32,
    pub depth: i32,
    /// None, Some(len)
    pub preset: Option<usize>,
    /// chunk / block / member size
    pub size: Option<u64>,
    /// XZ pre-filters as (type, property)
    pub filters: Vec<(u8, u32)>,
}

impl O {
    fn base() -> Self {
        O { dict: 65536, lc: 3, lp: 0, pb: 2, fast: true, bt4: false, nice: 32, depth: 0, preset: None, size: None, filters: vec![] }
    }
    fn desc(&self) -> String {
        format!(
            "d{}lc{}lp{}pb{}{}{}n{}dp{}pre{}sz{}f{:?}",
            self.dict,
            self.lc,
            self.lp,
            self.pb,
            if self.fast { "F" } else { "N" },
            if self.bt4 { "bt4" } else { "hc4" },
            self.nice,
            self.depth,
            self.preset.map(|p| p.to_string()).unwrap_or("-".into()),
            self.size.map(|p| p.to_string()).unwrap_or("-".into()),
            self.filters
        )
    }
    fn lzma(&self) -> LZMAOptions {
        let mut o = LZMAOptions::new(
            self.dict,
            self.lc,
            self.lp,
            self.pb,
            if self.fast { EncodeMode::Fast } else { EncodeMode::Normal },
            self.nice,
            if self.bt4 { MFType::BT4 } else { MFType::HC4 },
            self.depth,
        );
        o.preset_dict = self.preset.map(codec::preset_dict);
        o
    }
    /// Are all fields inside the documented ranges for writer `w`?
    fn in_range(&self, w: W) -> bool {
        let lzma2 = matches!(w, W::Lzma2 | W::Lzma2Mt | W::Xz);
        let lzip = matches!(w, W::Lzip | W::LzipMt);
        self.dict >= 4096
            && self.dict <= lzma_rust2::DICT_SIZE_MAX
            && (!lzip || self.dict <= 512 << 20)
            && self.lc <= 8
            && self.lp <= 4
            && self.pb <= 4
            && (!lzma2 || self.lc + self.lp <= 4)
            && (8..=273).contains(&self.nice)
            && self.depth >= 0
            && self.preset != Some(0)
            && self.filters.len() <= 3
            && self.filters.iter().all(|(t, p)| match t {
                0 => (1..=256).contains(p),
                _ => p % filter_alignment(*t) == 0,
            })
    }
}

fn filter_alignment(t: u8) -> u32 {
    match t {
        1 => 1,
        2 | 4 | 6 | 7 => 4,
        3 => 16,
        _ => 2,
    }
}

fn filter_type(t: u8) -> FilterType {
    match t {
        0 => FilterType::Delta,
        1 => FilterType::BcjX86,
        2 => FilterType::BcjPPC,
        3 => FilterType::BcjIA64,
        4 => FilterType::BcjARM,
        5 => FilterType::BcjARMThumb,
        6 => FilterType::BcjSPARC,
        7 => FilterType::BcjARM64,
        _ => FilterType::BcjRISCV,
    }
}

pub struct Case {
    pub w: W,
    pub o: O,
    pub input: usize,
    pub group: &'static str,
}

const INPUTS: [&str; 6] = ["empty", "9bytes", "5k-text", "70k-raw", "400k-raw", "maxdist"];

fn input_bytes(i: usize, dict: u32) -> Vec<u8> {
    match i {
        // period = the dictionary size: every match is at the maximum distance the options allow (the top distance slot)
        5 => {
            let d = if (4096..=(1 << 20)).contains(&dict) { dict as usize } else { 4096 };
            // ... first as 300 short matches (6 bytes, priced one by one by the optimising encoder) between literals,
            // then as one long run
            let mut segs = vec![Seg::R(d)];
            for _ in 0..300 {
                segs.push(Seg::D(d, 6));
                segs.push(Seg::R(10));
            }
            segs.push(Seg::D(d, 3000));
            gen::build(&segs, 1)
        }
        0 => vec![],
        1 => b"abcabcabc".to_vec(),
        2 => gen::build(&[Seg::C(5000)], 1),
        3 => gen::build(&[Seg::R(70_000)], 1),
        // larger than the encoder window of the small dictionaries: the window moves while chunks are pending
        _ => gen::build(&[Seg::R(400_000)], 1),
    }
}

fn build_cases(thorough: bool) -> Vec<Case> {
    let lcs: Vec<u32> = (0..=9).collect();
    let lps: Vec<u32> = (0..=5).collect();
    let pbs: Vec<u32> = (0..=5).collect();
    let dicts: Vec<u32> = vec![0, 1, 4095, 4096, 4097, 65536, u32::MAX - 15, u32::MAX];
    let nices: Vec<u32> = vec![0, 1, 7, 8, 273, 274];
    let depths: Vec<i32> = vec![i32::MIN, -1, 0, 1, i32::MAX];
    let presets: Vec<Option<usize>> = vec![None, Some(0), Some(1), Some(70_000)];
    let mut opts: Vec<(O, &'static str)> = vec![];
    // G1: {lc, lp, pb}
    for &lc in &lcs {
        for &lp in &lps {
            for &pb in &pbs {
                opts.push((O { lc, lp, pb, ..O::base() }, "lc-lp-pb"));
            }
        }
    }
    // G2: {dict, nice_len, depth, mf, mode}
    for &dict in &dicts {
        for &nice in &nices {
            for &depth in &depths {
                for fast in [true, false] {
                    for bt4 in [false, true] {
                        opts.push((O { dict, nice, depth, fast, bt4, ..O::base() }, "dict-nice-depth-mf-mode"));
                    }
                }
            }
        }
    }
    // G3: {preset dictionary, chunk/block/member size, dict}
    for &dict in &dicts {
        for &preset in &presets {
            let d = dict as u64;
            for size in [None, Some(1u64), Some(d.saturating_sub(1).max(1)), Some(d.max(1)), Some(u64::MAX)] {
                opts.push((O { dict, preset, size, ..O::base() }, "preset-size-dict"));
            }
        }
    }
    // G4: filters (XZ only): delta distances, unaligned BCJ offsets, 0..=4 pre-filters
    let mut fopts: Vec<O> = vec![];
    for d in [0u32, 1, 256, 257, u32::MAX] {
        fopts.push(O { filters: vec![(0, d)], ..O::base() });
    }
    for t in 1..=8u8 {
        for p in [0u32, 1, 2, 3, 4, 16, 0xFFFF_FFF0, u32::MAX] {
            fopts.push(O { filters: vec![(t, p)], ..O::base() });
        }
    }
    for n in 0..=4usize {
        fopts.push(O { filters: (0..n).map(|i| if i % 2 == 0 { (0u8, 1u32) } else { (1u8, 0u32) }).collect(), ..O::base() });
        fopts.push(O { filters: (0..n).map(|_| (1u8, 0u32)).collect(), ..O::base() });
    }
    let mut cases = vec![];
    for (o, g) in &opts {
        for w in WRITERS {
            for input in 0..INPUTS.len() {
                // the expensive inputs with the big products only in the thorough tier for G2
                if !thorough && *g == "dict-nice-depth-mf-mode" && (input == 3 || input == 4) && !(o.fast && !o.bt4) {
                    continue;
                }
                // lc/lp/pb do not touch window management or distance coding: the two inputs made for those only with
                // the other groups in the quick tier
                if !thorough && *g == "lc-lp-pb" && input >= 4 {
                    continue;
                }
                // LZIPWriterMT cuts its work units by the *unclamped* dictionary size: with dict_size 0 or 1 the 400 KiB
                // input becomes 400 000 one-byte members (valid, decodable, 14 s per case): thorough tier only
                if !thorough && matches!(w, W::LzipMt) && o.dict < 4096 && input == 4 {
                    continue;
                }
                cases.push(Case { w, o: o.clone(), input, group: g });
            }
        }
    }
    for o in fopts {
        for input in 0..INPUTS.len() {
            cases.push(Case { w: W::Xz, o: o.clone(), input, group: "filters" });
        }
    }
    cases
}

fn read_all<R: Read>(mut r: R, limit: usize) -> io::Result<Vec<u8>> {
    let mut out = vec![];
    let mut buf = vec![0u8; 1 << 16];
    loop {
        let n = r.read(&mut buf)?;
        if n == 0 {
            return Ok(out);
        }
        out.extend_from_slice(&buf[..n]);
        if out.len() > limit {
            return Err(io::Error::other("verif: output exceeds bound"));
        }
    }
}

/// Construct, write, finish. Err = the writer refused (fine).
fn encode(w: W, o: &O, input: &[u8]) -> io::Result<Vec<u8>> {
    let lo = o.lzma();
    let size = o.size.and_then(NonZeroU64::new);
    match w {
        W::LzmaHdr => {
            if lo.preset_dict.is_some() {
                // header + preset is documented as unsupported: use the raw variant's behaviour
                let mut wr = LZMAWriter::new_use_header(Vec::new(), &LZMAOptions { preset_dict: None, ..lo }, None)?;
                wr.write_all(input)?;
                return wr.finish();
            }
            let mut wr = LZMAWriter::new_use_header(Vec::new(), &lo, None)?;
            wr.write_all(input)?;
            wr.finish()
        }
        W::LzmaRaw => {
            let mut wr = LZMAWriter::new_no_header(Vec::new(), &lo, true)?;
            wr.write_all(input)?;
            wr.finish()
        }
        W::Lzma2 => {
            let mut wr = LZMA2Writer::new(Vec::new(), LZMA2Options { lzma_options: lo, chunk_size: size });
            wr.write_all(input)?;
            wr.finish()
        }
        W::Lzma2Mt => {
            let mut wr = LZMA2WriterMT::new(Vec::new(), LZMA2Options { lzma_options: lo, chunk_size: size.or(NonZeroU64::new(1)) }, 2)?;
            wr.write_all(input)?;
            wr.finish()
        }
        W::Xz => {
            let mut xo = XZOptions::with_preset(6);
            xo.lzma_options = LZMAOptions { preset_dict: None, ..lo };
            xo.check_type = CheckType::Crc32;
            xo.block_size = size;
            xo.filters = o.filters.iter().map(|(t, p)| FilterConfig { filter_type: filter_type(*t), property: *p }).collect();
            let mut wr = XZWriter::new(Vec::new(), xo)?;
            wr.write_all(input)?;
            wr.finish()
        }
        W::Lzip => {
            let mut wr = LZIPWriter::new(Vec::new(), LZIPOptions { lzma_options: LZMAOptions { preset_dict: None, ..lo }, member_size: size });
            wr.write_all(input)?;
            wr.finish()
        }
        W::LzipMt => {
            let mut wr = LZIPWriterMT::new(Vec::new(), LZIPOptions { lzma_options: LZMAOptions { preset_dict: None, ..lo }, member_size: size.or(NonZeroU64::new(1)) }, 2)?;
            wr.write_all(input)?;
            wr.finish()
        }
    }
}

/// Decode with the matching reader, given the same options.
fn decode(w: W, o: &O, comp: &[u8], n: usize) -> io::Result<Vec<u8>> {
    let limit = n * 2 + (1 << 16);
    let preset = o.preset.map(codec::preset_dict);
    match w {
        W::LzmaHdr => read_all(LZMAReader::new_mem_limit(comp, u32::MAX, None)?, limit),
        W::LzmaRaw => read_all(LZMAReader::new(comp, u64::MAX, o.lc, o.lp, o.pb, o.dict, preset.as_deref())?, limit),
        W::Lzma2 => read_all(LZMA2Reader::new(comp, o.dict, preset.as_deref()), limit),
        W::Lzma2Mt => read_all(LZMA2ReaderMT::new(comp, o.dict, None, 2), limit),
        W::Xz => read_all(XZReader::new(comp, true), limit),
        W::Lzip => read_all(LZIPReader::new(comp)?, limit),
        W::LzipMt => read_all(LZIPReaderMT::new(Cursor::new(comp), 2)?, limit),
    }
}

pub struct C19 {
    cases: Vec<Case>,
}

impl IsoCheck for C19 {
    fn n_cases(&self) -> usize {
        self.cases.len()
    }
    fn desc(&self, i: usize) -> String {
        let c = &self.cases[i];
        format!("C19|{:?}|{}|{}|{}", c.w, c.group, c.o.desc(), INPUTS[c.input])
    }
    fn attrs(&self, i: usize) -> Vec<(String, String)> {
        let c = &self.cases[i];
        vec![
            ("writer".into(), format!("{:?}", c.w)),
            ("group".into(), c.group.into()),
            ("in_range".into(), c.o.in_range(c.w).to_string()),
            ("input".into(), INPUTS[c.input].into()),
        ]
    }
    fn huge_alloc_ok(&self, i: usize, _size: u64) -> bool {
        // only dictionaries of 512 MiB and more legitimately need a single allocation above 1 GiB
        self.cases[i].o.dict >= 512 << 20
    }
    fn resource_heavy(&self, i: usize) -> bool {
        // a 256 MiB+ dictionary needs gigabytes of match finder tables (twice with 2 MT workers)
        self.cases[i].o.dict >= 256 << 20
    }
    fn run(&self, i: usize, rep: &Report) -> bool {
        let c = &self.cases[i];
        let input = input_bytes(c.input, c.o.dict);
        let desc = || self.desc(i);
        let mk = |kind: &str, site: String, detail: String| {
            let mut v = Violation::new(kind, site, desc()).detail(detail);
            for (k, val) in self.attrs(i) {
                v = v.attr(&k, val);
            }
            rep.violation(v);
        };
        // dictionaries the harness cannot afford (>= 512 MiB): only the constructor arithmetic is
        // exercised, by the allocation cap; smaller ones run fully
        if matches!(c.w, W::Lzip | W::LzipMt) && c.o.dict >= 256 << 20 {
            // LZIP clamps the dictionary to 512 MiB and then really allocates gigabytes of match
            // finder tables: beyond what a child is granted. Not run, counted.
            rep.add("inconclusive_resource_limit", 1);
            return false;
        }
        mc_core::alloc::set_request_cap(crate::iso::REQUEST_CAP);
        let comp = match catch(|| encode(c.w, &c.o, &input)) {
            Err(p) => {
                if mc_core::alloc::cap_was_hit() && self.huge_alloc_ok(i, 0) {
                    rep.add("inconclusive_huge_allocation", 1);
                    return false;
                }
                mk("panic", format!("encode: {}", p.site()), format!("{}:{} {}", p.file, p.line, p.msg));
                return false;
            }
            Ok(Err(_)) => return true, // refused with an error: that is an acceptable answer
            Ok(Ok(c)) => c,
        };
        match catch(|| decode(c.w, &c.o, &comp, input.len())) {
            Err(p) => {
                mk("panic", format!("decode: {}", p.site()), format!("{}:{} {} | comp={}", p.file, p.line, p.msg, brief(&comp)));
                false
            }
            Ok(Err(e)) => {
                mk(
                    "undecodable",
                    format!("writer reported success but the matching reader fails: {:?}: {}", e.kind(), mc_core::run::normalise(&e.to_string())),
                    format!("{e} | comp={}", brief(&comp)),
                );
                false
            }
            Ok(Ok(out)) => {
                if out != input {
                    mk("wrong-bytes", "writer reported success but the stream decodes to different bytes".into(), format!("in {} out {} comp {}", input.len(), out.len(), brief(&comp)));
                    false
                } else {
                    true
                }
            }
        }
    }
}

pub fn run(cli: &Cli, rep: &Report) {
    let thorough = cli.thorough();
    rep.rule(
        "E-enum in child processes: boundary values of every public option field (lc 0..9, lp 0..5, pb 0..5, dict {0,1,4095,4096,4097,65536,u32::MAX-15,u32::MAX}, nice_len {0,1,7,8,273,274}, depth {i32::MIN,-1,0,1,i32::MAX}, \
         preset dictionary {none, empty, 1 byte, > dict}, chunk/block/member size {1, dict-1, dict, u64::MAX}, delta distance {0,1,256,257,u32::MAX}, BCJ start offsets aligned and not, 0..4 pre-filters) as the FULL product inside each \
         interacting group ({lc,lp,pb}; {dict,nice_len,depth,mf,mode}; {preset,size,dict}; {filters}) with all other fields at defaults, x 7 writers (LZMA +-header, LZMA2, LZMA2-MT, XZ, LZIP, LZIP-MT) x inputs {empty, 9 bytes, 5 KiB text, 70 KiB incompressible, 400 KiB incompressible, a period-dict_size input whose matches all lie at the maximum distance}; \
         oracle: constructor/write/finish returns Err, or the stream decodes with the matching reader to the input; panic/abort/hang = violation; non-trivial = the case ran to a verdict",
    );
    rep.assumption("dictionaries >= 512 MiB are not really allocated (single allocations above 1 GiB are refused by the harness and counted as inconclusive), only the arithmetic leading to them is exercised");
    rep.assumption("MT writers/readers run on real threads here (2 workers); their schedules are the business of the scheduler engine");
    let cases = build_cases(thorough);
    rep.extra("cases", json!({"total": cases.len(), "writers": WRITERS.len(), "inputs": INPUTS}));
    let check: &'static C19 = Box::leak(Box::new(C19 { cases }));
    iso::run_isolated(cli, rep, check);
    rep.sample(json!({"case": check.desc(0)}));
    rep.sample(json!({"case": check.desc(check.n_cases() / 2)}));
    rep.sample(json!({"case": check.desc(check.n_cases() - 1)}));
    let _ = (Bcj::X86, Filt::Delta(1));
}
