//! C12 — concatenated XZ streams and LZIP members decode to the concatenated data.

use crate::codec::{self, Bcj, Container, Filt, Opts};
use crate::common::*;
use crate::refimpl;
use lzma_rust2::{LZIPReader, XZReader};
use mc_core::gen::{self, Seg};
use mc_core::run::{catch, par_for_with, Cli};
use mc_core::{Report, Violation};
use serde_json::json;
use std::io::Read;

struct Piece {
    name: String,
    bytes: Vec<u8>,
    content: Vec<u8>,
}

fn xz_pieces() -> Vec<Piece> {
    let o = Opts::small();
    let mut v = vec![];
    let mut add = |name: &str, c: Container, segs: &[Seg], ops: &[codec::Op], o: Opts| {
        let content = gen::build(segs, 1);
        if let Ok(bytes) = codec::encode(&c, &o, &content, ops) {
            v.push(Piece { name: name.into(), bytes, content });
        }
    };
    add("empty-c1", Container::Xz { check: 1, block: None, filters: vec![] }, &[], &[], o);
    add("1blk-c4", Container::Xz { check: 4, block: None, filters: vec![] }, &[Seg::C(60)], &[], o);
    add("2blk-c10", Container::Xz { check: 10, block: Some(1), filters: vec![] }, &[Seg::P(3, 5000)], &[codec::Op::Write(4096)], o);
    add("1blk-c0", Container::Xz { check: 0, block: None, filters: vec![] }, &[Seg::L(vec![0x41])], &[], o);
    add("x86-c1-d64k", Container::Xz { check: 1, block: None, filters: vec![Filt::Bcj(Bcj::X86, 0)] }, &[Seg::X(100)], &[], Opts { dict: 65536, ..o });
    let t = gen::build(&[Seg::C(40)], 2);
    if let Ok(bytes) = refimpl::xz_encode_preset(&t, 0, 4) {
        v.push(Piece { name: "ref-preset0".into(), bytes, content: t });
    }
    v
}

fn lzip_pieces() -> Vec<Piece> {
    let mut v = vec![];
    let mut add = |name: &str, segs: &[Seg], o: Opts| {
        let content = gen::build(segs, 1);
        if let Ok(bytes) = codec::encode(&Container::Lzip { member: None }, &o, &content, &[]) {
            v.push(Piece { name: name.into(), bytes, content });
        }
    };
    add("empty", &[], Opts::small());
    add("1byte", &[Seg::L(vec![0x7A])], Opts::small());
    add("5k", &[Seg::C(5000)], Opts::small());
    add("5k-d64k", &[Seg::X(5000)], Opts { dict: 65536, fast: false, bt4: true, ..Opts::small() });
    add("raw-d5000", &[Seg::R(300)], Opts { dict: 5000, ..Opts::small() });
    v
}

/// All sequences over 0..k of length 1..=max_len.
fn sequences(k: usize, max_len: usize) -> Vec<Vec<usize>> {
    let mut out = vec![];
    let mut level: Vec<Vec<usize>> = vec![vec![]];
    for _ in 0..max_len {
        let mut next = vec![];
        for s in &level {
            for i in 0..k {
                let mut t = s.clone();
                t.push(i);
                next.push(t);
            }
        }
        out.extend(next.iter().cloned());
        level = next;
    }
    out
}

const PADS: [usize; 9] = [0, 4, 8, 12, 1, 2, 3, 5, 7];

/// A source that hands out at most `max` bytes per read call (0 = no limit).
struct Chunked<'a> {
    data: &'a [u8],
    pos: usize,
    max: usize,
}

impl Read for Chunked<'_> {
    fn read(&mut self, buf: &mut [u8]) -> std::io::Result<usize> {
        let mut n = buf.len().min(self.data.len() - self.pos);
        if self.max != 0 {
            n = n.min(self.max);
        }
        buf[..n].copy_from_slice(&self.data[self.pos..self.pos + n]);
        self.pos += n;
        Ok(n)
    }
}

pub fn run(cli: &Cli, rep: &Report) {
    let thorough = cli.thorough();
    rep.rule(
        "E-enum: every sequence of 1..=n XZ streams from a set of 6 (empty, 1 block, 2 blocks, all check types, a BCJ filter, one liblzma-made) x every assignment of a stream-padding length \
         from {0,4,8,12 (valid), 1,2,3,5,7 (invalid)} after each stream (including the last) x allow_multiple_streams in {true,false}; every sequence of 1..=m LZIP members from \
         {empty, 1 byte, 5 KiB, other dictionary sizes}; each file read from a plain slice and from sources that hand out at most 1, 3 or 7 bytes per read call \
         (headers, footers, padding and the next magic arrive in pieces); non-trivial = at least two streams/members",
    );
    let xp = xz_pieces();
    let lp = lzip_pieces();
    let n_max = if thorough { 4 } else { 3 };
    let seqs = sequences(xp.len(), n_max);
    rep.extra("xz", json!({"pieces": xp.iter().map(|p| format!("{} ({} bytes)", p.name, p.bytes.len())).collect::<Vec<_>>(), "sequences": seqs.len(), "paddings": PADS}));
    par_for_with(
        seqs.len(),
        0,
        |_| (0u64, Vec::<u64>::new()),
        |st, si| {
            let seq = &seqs[si];
            let k = seq.len();
            // every assignment of paddings to the k gaps (incl. after the last stream); for k = 4
            // the last gap is restricted to {0, 4, 1} to keep the product bounded (stated)
            let combos = PADS.len().pow(k as u32);
            for combo in 0..combos {
                let mut pads = vec![];
                let mut x = combo;
                for _ in 0..k {
                    pads.push(PADS[x % PADS.len()]);
                    x /= PADS.len();
                }
                if k == 4 && !matches!(pads[3], 0 | 4 | 1) {
                    continue;
                }
                let mut file = vec![];
                let mut content = vec![];
                for (j, &pi) in seq.iter().enumerate() {
                    file.extend_from_slice(&xp[pi].bytes);
                    file.extend(std::iter::repeat(0u8).take(pads[j]));
                    content.extend_from_slice(&xp[pi].content);
                }
                let all_valid = pads.iter().all(|p| p % 4 == 0);
                for (multi, chunk) in [(true, 0usize), (false, 0), (true, 1), (true, 3), (false, 1), (true, 7)] {
                    // chunk = the source hands out at most that many bytes per read call (0 = a plain slice): stream
                    // headers, footers, padding and the magic of the next stream then arrive in pieces
                    let desc = || {
                        format!(
                            "C12|xz|{}|pads{}|multi{}{}",
                            seq.iter().map(|i| xp[*i].name.clone()).collect::<Vec<_>>().join("+"),
                            pads.iter().map(|p| p.to_string()).collect::<Vec<_>>().join(","),
                            multi as u8,
                            if chunk == 0 { String::new() } else { format!("|src{chunk}") }
                        )
                    };
                    if !cli.selected_with(desc) {
                        continue;
                    }
                    st.0 += 1;
                    let r = catch(|| {
                        let mut rd = XZReader::new(Chunked { data: &file, pos: 0, max: chunk }, multi);
                        let out = codec::read_all(&mut rd, 4096, content.len() * 2 + 65536)?;
                        let src = rd.into_inner();
                        Ok::<_, std::io::Error>((out, src.data.len() - src.pos))
                    });
                    let mk = |kind: &str, site: String, detail: String| {
                        rep.violation(
                            Violation::new(kind, site, desc())
                                .attr("family", "xz")
                                .attr("multi", multi.to_string())
                                .attr("streams", if k == 1 { "1" } else { "many" })
                                .attr("padding", if all_valid { "valid" } else { "invalid" })
                                .detail(detail),
                        );
                    };
                    match r {
                        Err(p) => mk("panic", p.site(), p.msg),
                        Ok(res) => {
                            if multi {
                                match (all_valid, res) {
                                    (true, Ok((out, _))) if out == content => {
                                        if k >= 2 {
                                            st.1.push(hash_desc(&desc()));
                                        }
                                    }
                                    (true, Ok((out, _))) => mk("wrong-bytes", "concatenated streams decode to something else than the concatenated contents".into(), format!("got {} bytes want {}", out.len(), content.len())),
                                    (true, Err(e)) => mk("rejected-valid", format!("valid multi-stream file rejected: {:?}: {}", e.kind(), mc_core::run::normalise(&e.to_string())), e.to_string()),
                                    (false, Ok((out, _))) => mk("accepted-bad-padding", "stream padding that is not a multiple of four was accepted".into(), format!("returned {} bytes", out.len())),
                                    (false, Err(_)) => {
                                        if k >= 2 {
                                            st.1.push(hash_desc(&desc()));
                                        }
                                    }
                                }
                            } else {
                                // single-stream mode: first stream only, source left right after it
                                let first = &xp[seq[0]];
                                match res {
                                    Ok((out, left)) if out == first.content && left == file.len() - first.bytes.len() => {
                                        if k >= 2 {
                                            st.1.push(hash_desc(&desc()));
                                        }
                                    }
                                    Ok((out, left)) => mk(
                                        "single-stream-mode",
                                        "with multi-stream decoding disabled the reader did not stop exactly after the first stream".into(),
                                        format!("returned {} bytes (first stream has {}), {} bytes left in source (expected {})", out.len(), first.content.len(), left, file.len() - first.bytes.len()),
                                    ),
                                    Err(e) => mk("rejected-valid", format!("single-stream mode fails on a file whose first stream is valid: {:?}: {}", e.kind(), mc_core::run::normalise(&e.to_string())), e.to_string()),
                                }
                            }
                        }
                    }
                }
            }
        },
        |st| {
            rep.add_many(&[("evaluations", st.0), ("xz_files", st.0)]);
            rep.nontrivial_many(&st.1);
        },
    );

    let m_max = if thorough { 5 } else { 4 };
    let lseqs = sequences(lp.len(), m_max);
    rep.extra("lzip", json!({"pieces": lp.iter().map(|p| format!("{} ({} bytes)", p.name, p.bytes.len())).collect::<Vec<_>>(), "sequences": lseqs.len()}));
    par_for_with(
        lseqs.len(),
        0,
        |_| (0u64, Vec::<u64>::new()),
        |st, si| {
            let seq = &lseqs[si];
            let mut file = vec![];
            let mut content = vec![];
            for &pi in seq {
                file.extend_from_slice(&lp[pi].bytes);
                content.extend_from_slice(&lp[pi].content);
            }
            for (bs, chunk) in [(4096usize, 0usize), (1, 0), (4096, 1), (4096, 3), (4096, 7)] {
                if bs == 1 && content.len() > 6000 {
                    continue;
                }
                let desc = || {
                    format!(
                        "C12|lzip|{}|buf{}{}",
                        seq.iter().map(|i| lp[*i].name.clone()).collect::<Vec<_>>().join("+"),
                        bs,
                        if chunk == 0 { String::new() } else { format!("|src{chunk}") }
                    )
                };
                if !cli.selected_with(desc) {
                    continue;
                }
                st.0 += 1;
                let r = catch(|| {
                    let mut rd = LZIPReader::new(Chunked { data: &file, pos: 0, max: chunk })?;
                    let mut out = vec![];
                    let mut buf = vec![0u8; bs];
                    loop {
                        let n = rd.read(&mut buf)?;
                        if n == 0 {
                            break;
                        }
                        out.extend_from_slice(&buf[..n]);
                    }
                    Ok::<_, std::io::Error>(out)
                });
                let mk = |kind: &str, site: String, detail: String| {
                    rep.violation(Violation::new(kind, site, desc()).attr("family", "lzip").attr("streams", if seq.len() == 1 { "1" } else { "many" }).detail(detail));
                };
                match r {
                    Err(p) => mk("panic", p.site(), p.msg),
                    Ok(Ok(out)) if out == content => {
                        if seq.len() >= 2 {
                            st.1.push(hash_desc(&desc()));
                        }
                    }
                    Ok(Ok(out)) => mk("wrong-bytes", "members decode to something else than the concatenated contents".into(), format!("got {} want {}", out.len(), content.len())),
                    Ok(Err(e)) => mk("rejected-valid", format!("valid multi-member file rejected: {:?}: {}", e.kind(), mc_core::run::normalise(&e.to_string())), e.to_string()),
                }
            }
            // the multi-threaded reader over the same member sequence (seekable source; 1 and 2 workers; destination
            // buffers of 4096 bytes and of 1 byte; read is called again after it has returned 0)
            for (workers, bs) in [(1u32, 4096usize), (2, 4096), (2, 1)] {
                if bs == 1 && content.len() > 6000 {
                    continue;
                }
                let desc = || format!("C12|lzipmt|{}|w{}|buf{}", seq.iter().map(|i| lp[*i].name.clone()).collect::<Vec<_>>().join("+"), workers, bs);
                if !cli.selected_with(desc) {
                    continue;
                }
                st.0 += 1;
                let r = catch(|| {
                    let mut rd = lzma_rust2::LZIPReaderMT::new(std::io::Cursor::new(file.as_slice()), workers)?;
                    let mut out = vec![];
                    let mut buf = vec![0u8; bs];
                    loop {
                        let n = rd.read(&mut buf)?;
                        if n == 0 {
                            break;
                        }
                        out.extend_from_slice(&buf[..n]);
                    }
                    let again = rd.read(&mut buf)?;
                    Ok::<_, std::io::Error>((out, again, rd.member_count()))
                });
                let mk = |kind: &str, site: String, detail: String| {
                    rep.violation(Violation::new(kind, site, desc()).attr("family", "lzip-mt").attr("streams", if seq.len() == 1 { "1" } else { "many" }).detail(detail));
                };
                match r {
                    Err(p) => mk("panic", p.site(), p.msg),
                    Ok(Ok((out, again, _))) if out == content && again == 0 => {
                        if seq.len() >= 2 {
                            st.1.push(hash_desc(&desc()));
                        }
                    }
                    Ok(Ok((out, again, _))) => mk(
                        "wrong-bytes",
                        "LZIPReaderMT: members decode to something else than the concatenated contents".into(),
                        format!("got {} want {}; a read after the end returned {} bytes", out.len(), content.len(), again),
                    ),
                    Ok(Err(e)) => mk("rejected-valid", format!("LZIPReaderMT rejects a valid multi-member file: {:?}: {}", e.kind(), mc_core::run::normalise(&e.to_string())), e.to_string()),
                }
            }
        },
        |st| {
            rep.add_many(&[("evaluations", st.0), ("lzip_files", st.0)]);
            rep.nontrivial_many(&st.1);
        },
    );
    rep.sample(json!({"xz": "1blk-c4+empty-c1+2blk-c10", "pads": [4, 0, 8], "multi": true}));
    rep.sample(json!({"xz": "1blk-c4+ref-preset0", "pads": [3, 0], "multi": true, "expect": "Err"}));
    rep.sample(json!({"lzip": "5k+empty+1byte+raw-d5000"}));
}
