//! C06 — decoders stay total on untrusted bytes: no panic, abort, stack overflow, hang or
//! allocation blow-up. Every case runs in an isolated child process (see iso.rs).

use crate::c04::{crc32, lzip_members, xz_layout};
use crate::codec::{Bcj, Container, ALL_BCJ};
use crate::corpus;
use crate::iso::{self, IsoCheck};
use lzma_rust2::filter::bcj2::BCJ2Reader;
use lzma_rust2::filter::delta::DeltaReader;
use lzma_rust2::{LZIPReader, LZIPReaderMT, LZMA2Reader, LZMA2ReaderMT, LZMAReader, XZReader};
use mc_core::alloc;
use mc_core::gen;
use mc_core::report::brief;
use mc_core::run::{catch, Cli};
use mc_core::{Report, Violation};
use serde_json::json;
use std::io::{self, Cursor, Read};

#[derive(Clone, Debug)]
pub enum Dec {
    LzmaLimit(u32),
    LzmaProps { props: u8, dict: u32, size: u64 },
    Lzma2 { dict: u32 },
    Lzma2Mt { dict: u32, workers: u32 },
    /// LZMA2 readers started with a (fixed, 64-byte) preset dictionary: the first chunk needs no dictionary reset
    Lzma2Preset { dict: u32 },
    Lzma2MtPreset { dict: u32, workers: u32 },
    XzMulti,
    XzSingle,
    Lzip,
    LzipMt(u32),
    Bcj(Bcj, u32),
    Delta(usize),
    Bcj2 { size: u64 },
    /// BCJ2 with the four streams given separately: the stored input is main ++ call ++ jump ++ rc with these lengths
    Bcj2Split { size: u64, main: u16, call: u16, jump: u16 },
}

impl Dec {
    fn family(&self) -> &'static str {
        match self {
            Dec::LzmaLimit(_) | Dec::LzmaProps { .. } => "lzma",
            Dec::Lzma2 { .. } | Dec::Lzma2Preset { .. } => "lzma2",
            Dec::Lzma2Mt { .. } | Dec::Lzma2MtPreset { .. } => "lzma2-mt",
            Dec::XzMulti | Dec::XzSingle => "xz",
            Dec::Lzip => "lzip",
            Dec::LzipMt(_) => "lzip-mt",
            Dec::Bcj(..) => "bcj",
            Dec::Delta(_) => "delta",
            Dec::Bcj2 { .. } | Dec::Bcj2Split { .. } => "bcj2",
        }
    }
}

pub struct Case {
    dec: Dec,
    input: usize,
    /// Some((position, value, fix CRC)) = the stored input with one byte substituted (built on demand)
    sub: Option<(u32, u8, bool)>,
    class: &'static str,
}

const OUT_LIMIT: usize = 16 << 20;

fn drain<R: Read>(mut r: R) -> io::Result<usize> {
    let mut buf = [0u8; 4096];
    let mut total = 0usize;
    let mut interrupts = 0;
    let res = loop {
        match r.read(&mut buf) {
            Ok(0) => break Ok(total),
            Ok(n) => {
                if n > buf.len() {
                    panic!("verif: read returned more than the buffer holds");
                }
                total += n;
                if total > OUT_LIMIT {
                    return Ok(total); // endless *legitimate* output is not this check's business
                }
            }
            Err(e) if e.kind() == io::ErrorKind::Interrupted => {
                interrupts += 1;
                if interrupts > 1000 {
                    break Err(e);
                }
            }
            Err(e) => break Err(e),
        }
    };
    // "each read call": a caller may call again after an error or after the end; those calls must return as well
    // (with anything), without panicking
    for _ in 0..2 {
        let _ = r.read(&mut buf);
    }
    res
}

const PRESET: [u8; 64] = *b"the quick brown fox jumps over the lazy dog, THE QUICK BROWN FOX";

fn run_decoder(dec: &Dec, data: &[u8]) -> io::Result<usize> {
    match dec {
        Dec::LzmaLimit(limit) => drain(LZMAReader::new_mem_limit(data, *limit, None)?),
        Dec::LzmaProps { props, dict, size } => drain(LZMAReader::new_with_props(data, *size, *props, *dict, None)?),
        Dec::Lzma2 { dict } => drain(LZMA2Reader::new(data, *dict, None)),
        Dec::Lzma2Mt { dict, workers } => drain(LZMA2ReaderMT::new(data, *dict, None, *workers)),
        Dec::Lzma2Preset { dict } => drain(LZMA2Reader::new(data, *dict, Some(&PRESET))),
        Dec::Lzma2MtPreset { dict, workers } => drain(LZMA2ReaderMT::new(data, *dict, Some(&PRESET), *workers)),
        Dec::XzMulti => drain(XZReader::new(data, true)),
        Dec::XzSingle => drain(XZReader::new(data, false)),
        Dec::Lzip => drain(LZIPReader::new(data)?),
        Dec::LzipMt(w) => drain(LZIPReaderMT::new(Cursor::new(data), *w)?),
        Dec::Bcj(b, start) => drain(b.reader(data, *start as usize)),
        Dec::Delta(d) => drain(DeltaReader::new(data, *d)),
        Dec::Bcj2 { size } => {
            // split the input into four streams of (almost) equal length
            let q = data.len() / 4;
            let inputs: Vec<&[u8]> = vec![&data[..q], &data[q..2 * q], &data[2 * q..3 * q], &data[3 * q..]];
            drain(BCJ2Reader::new(inputs, *size))
        }
        Dec::Bcj2Split { size, main, call, jump } => {
            let (a, b, c) = (*main as usize, *call as usize, *jump as usize);
            let inputs: Vec<&[u8]> = vec![&data[..a], &data[a..a + b], &data[a + b..a + b + c], &data[a + b + c..]];
            drain(BCJ2Reader::new(inputs, *size))
        }
    }
}

/// Largest dictionary size the input/parameters declare for this decoder (upper bound).
fn declared_dict(dec: &Dec, data: &[u8]) -> u64 {
    let xz_prop = |p: u8| -> u64 {
        if p > 40 {
            0
        } else if p == 40 {
            0xFFFF_FFFF
        } else {
            ((2 | (p & 1) as u64) << (p / 2 + 11)) as u64
        }
    };
    match dec {
        Dec::LzmaLimit(_) => {
            if data.len() >= 5 {
                u32::from_le_bytes([data[1], data[2], data[3], data[4]]) as u64
            } else {
                0
            }
        }
        Dec::LzmaProps { dict, .. } | Dec::Lzma2 { dict } | Dec::Lzma2Preset { dict } => *dict as u64,
        Dec::Lzma2Mt { dict, workers } | Dec::Lzma2MtPreset { dict, workers } => *dict as u64 * (*workers as u64 + 1),
        Dec::XzMulti | Dec::XzSingle => {
            let mut m = 0;
            for w in data.windows(3) {
                if w[0] == 0x21 && w[1] == 0x01 {
                    m = m.max(xz_prop(w[2]));
                }
            }
            m
        }
        Dec::Lzip | Dec::LzipMt(_) => {
            let mut m = 0u64;
            for w in data.windows(6) {
                if &w[..4] == b"LZIP" {
                    let b = w[5];
                    let lg = (b & 0x1F) as u32;
                    if (12..=29).contains(&lg) {
                        m = m.max(1u64 << lg);
                    }
                }
            }
            m
        }
        Dec::Bcj(..) | Dec::Delta(_) => 0,
        Dec::Bcj2 { .. } | Dec::Bcj2Split { .. } => 1 << 20, // four fixed 256 KiB stream buffers
    }
}

/// Implicit block of cases: one stored file x its positions x the 255 other byte values.
pub struct CorpusBlock {
    input: usize,
    dec: Dec,
    fix: bool,
    positions: Vec<u32>,
}

pub struct C06 {
    cases: Vec<Case>,
    blocks: Vec<CorpusBlock>,
    /// first global case index of every block (explicit cases come first)
    block_start: Vec<usize>,
    total: usize,
    inputs: Vec<Vec<u8>>,
}

fn fix_crcs(f: &mut [u8], orig: &[u8], pos: usize) -> bool {
    // recompute the CRC32 that protects the region `pos` falls into (layout of the ORIGINAL file)
    let Some(l) = xz_layout(orig) else { return false };
    if (6..8).contains(&pos) {
        let c = crc32(&f[6..8]);
        f[8..12].copy_from_slice(&c.to_le_bytes());
        return true;
    }
    for (hs, hl, _) in &l.blocks {
        if pos > *hs && pos < hs + hl - 4 {
            let c = crc32(&f[*hs..hs + hl - 4]);
            f[hs + hl - 4..hs + hl].copy_from_slice(&c.to_le_bytes());
            return true;
        }
    }
    if pos >= l.index_start && pos < l.index_start + l.index_len - 4 {
        let c = crc32(&f[l.index_start..l.index_start + l.index_len - 4]);
        f[l.index_start + l.index_len - 4..l.index_start + l.index_len].copy_from_slice(&c.to_le_bytes());
        return true;
    }
    if pos >= l.footer_start + 4 && pos < l.footer_start + 10 {
        let c = crc32(&f[l.footer_start + 4..l.footer_start + 10]);
        f[l.footer_start..l.footer_start + 4].copy_from_slice(&c.to_le_bytes());
        return true;
    }
    false
}

fn vli(mut v: u64) -> Vec<u8> {
    let mut out = vec![];
    while v >= 0x80 {
        out.push((v as u8) | 0x80);
        v >>= 7;
    }
    out.push(v as u8);
    out
}

/// An XZ file (check CRC32) with a hand-made index: `count` says how many records follow,
/// `records` are actually present.
fn xz_with_index(count: u64, records: &[(u64, u64)]) -> Vec<u8> {
    let mut f = vec![0xFD, b'7', b'z', b'X', b'Z', 0, 0, 1];
    let c = crc32(&f[6..8]);
    f.extend_from_slice(&c.to_le_bytes());
    let mut idx = vec![0u8];
    idx.extend(vli(count));
    for (a, b) in records {
        idx.extend(vli(*a));
        idx.extend(vli(*b));
    }
    while idx.len() % 4 != 0 {
        idx.push(0);
    }
    let c = crc32(&idx);
    idx.extend_from_slice(&c.to_le_bytes());
    let backward = (idx.len() / 4 - 1) as u32;
    f.extend_from_slice(&idx);
    let mut foot = backward.to_le_bytes().to_vec();
    foot.extend_from_slice(&[0, 1]);
    let c = crc32(&foot);
    f.extend_from_slice(&c.to_le_bytes());
    f.extend_from_slice(&foot);
    f.extend_from_slice(b"YZ");
    f
}

/// XZ block header with given raw body (flags + filters), padded and CRC'd, then `payload`.
fn xz_with_block_header(body: &[u8], size_byte: Option<u8>, payload: &[u8]) -> Vec<u8> {
    let mut f = vec![0xFD, b'7', b'z', b'X', b'Z', 0, 0, 1];
    let c = crc32(&f[6..8]);
    f.extend_from_slice(&c.to_le_bytes());
    let total = (1 + body.len() + 4).div_ceil(4) * 4;
    let sb = size_byte.unwrap_or((total / 4 - 1) as u8);
    let mut h = vec![sb];
    h.extend_from_slice(body);
    while h.len() < total - 4 {
        h.push(0);
    }
    let c = crc32(&h);
    h.extend_from_slice(&c.to_le_bytes());
    f.extend_from_slice(&h);
    f.extend_from_slice(payload);
    f
}

fn build(thorough: bool) -> C06 {
    let mut inputs: Vec<Vec<u8>> = vec![];
    let mut cases: Vec<Case> = vec![];
    let mut blocks: Vec<CorpusBlock> = vec![];
    let mut add_input = |v: Vec<u8>, inputs: &mut Vec<Vec<u8>>| -> usize {
        inputs.push(v);
        inputs.len() - 1
    };
    let all_decoders = |dicts: &[u32]| -> Vec<Dec> {
        let mut v = vec![Dec::LzmaLimit(65536), Dec::LzmaLimit(u32::MAX), Dec::XzMulti, Dec::XzSingle, Dec::Lzip, Dec::LzipMt(1), Dec::LzipMt(2)];
        for &d in dicts {
            v.push(Dec::Lzma2 { dict: d });
        }
        v.push(Dec::Lzma2Mt { dict: 4096, workers: 1 });
        v.push(Dec::Lzma2Mt { dict: 65536, workers: 2 });
        for b in ALL_BCJ {
            v.push(Dec::Bcj(b, 0));
        }
        v.push(Dec::Delta(1));
        v.push(Dec::Bcj2 { size: 64 });
        v
    };
    let dict_set: Vec<u32> = vec![0, 1, 4095, 4096, 65536, 1 << 24, lzma_rust2::DICT_SIZE_MAX, u32::MAX];

    // (i) short strings against every decoder
    let alpha: [u8; 7] = [0x00, 0x01, 0x02, 0x5D, 0x80, 0xE0, 0xFF];
    let mut shorts: Vec<Vec<u8>> = vec![vec![]];
    for a in 0..=255u8 {
        shorts.push(vec![a]);
    }
    for a in 0..=255u8 {
        for b in [0u8, 1, 2, 0x5D, 0x80, 0xE0, 0xFF, a] {
            shorts.push(vec![a, b]);
        }
    }
    let l = if thorough { 6 } else { 5 };
    for i in gen::micro_count(7, 2)..gen::micro_count(7, l) {
        shorts.push(gen::micro_nth(&alpha, i));
    }
    let decs = all_decoders(&dict_set);
    for (si, s) in shorts.into_iter().enumerate() {
        let slen = s.len();
        let ii = add_input(s, &mut inputs);
        for d in &decs {
            // multi-MiB dictionaries cost a page-faulting allocation per case: they get every
            // string of length <= 1 and every 16th longer one (stated subset)
            if matches!(d, Dec::Lzma2 { dict } if *dict >= 1 << 24) && slen > 1 && si % 16 != 0 {
                continue;
            }
            cases.push(Case { dec: d.clone(), input: ii, sub: None, class: "short-string" });
        }
    }
    // LZMA with caller-supplied parameters
    let param_inputs: Vec<Vec<u8>> = {
        let mut v = vec![vec![], vec![0], vec![0, 0, 0, 0, 0], vec![0, 0xFF, 0xFF, 0xFF, 0xFF], vec![1, 0, 0, 0, 0]];
        // a real raw stream
        let o = crate::codec::Opts::small();
        if let Ok(s) = crate::codec::encode(&Container::LzmaRawMarker, &o, &gen::build(&[gen::Seg::C(300)], 1), &[]) {
            v.push(s);
        }
        v.push(vec![0, 0, 0, 0, 0, 0xFF, 0xFF, 0xFF, 0xFF, 0xFF, 0xFF, 0xFF, 0xFF]);
        v
    };
    for pi in param_inputs {
        let ii = add_input(pi, &mut inputs);
        for props in 0..=255u8 {
            for &dict in &dict_set {
                for size in [0u64, 1, 1 << 63, u64::MAX] {
                    // a really allocated 16 MiB..4 GiB dictionary only for every 8th props byte
                    if dict >= 1 << 24 && size > 1 && props % 8 != 5 {
                        continue;
                    }
                    cases.push(Case { sub: None, dec: Dec::LzmaProps { props, dict, size }, input: ii, class: "lzma-params" });
                }
            }
        }
    }
    // BCJ start offsets, delta distances, BCJ2 sizes on real-looking data
    let code = gen::build(&[gen::Seg::X(600)], 1);
    let ci = add_input(code, &mut inputs);
    for b in ALL_BCJ {
        for start in [0u32, b.alignment(), (1 << 31) - 16, 0u32.wrapping_sub(16), u32::MAX] {
            cases.push(Case { sub: None, dec: Dec::Bcj(b, start), input: ci, class: "filter-params" });
        }
    }
    for d in [0usize, 1, 256, 257, usize::MAX] {
        cases.push(Case { sub: None, dec: Dec::Delta(d), input: ci, class: "filter-params" });
    }
    for size in [0u64, 1, 599, 600, 601, 1 << 32, u64::MAX] {
        cases.push(Case { sub: None, dec: Dec::Bcj2 { size }, input: ci, class: "filter-params" });
    }

    // BCJ2 with four separately shaped streams: every combination of a main stream holding 0..2 branch opcodes, CALL and
    // JUMP streams of every length 0..=9 (so also lengths that are not a multiple of the 4-byte operand), range-coder
    // streams that decode the branches as converted / not converted / are cut short or start with a bad byte, and
    // declared sizes below, at and beyond what the streams can deliver
    {
        let mains: Vec<Vec<u8>> = vec![
            vec![], vec![0xE8], vec![0x00, 0xE8], vec![0xE8, 0xE8], vec![0xE9], vec![0x0F, 0x80], vec![0x0F, 0x80, 0x00, 0xE8],
            vec![0x00, 0x00, 0x00, 0x00, 0x00, 0xE8], vec![0xE9, 0x00, 0x00, 0x00, 0x00, 0xE8, 0x11],
        ];
        let rcs: Vec<Vec<u8>> = vec![
            vec![], vec![0x00], vec![0x00, 0x00, 0x00, 0x00, 0x00], vec![0x00, 0xFF, 0xFF, 0xFF, 0xFE], vec![0x00, 0xFF, 0xFF, 0xFF, 0xFF, 0xFF, 0xFF],
            vec![0x01, 0x00, 0x00, 0x00, 0x00], vec![0x00, 0x80, 0x00, 0x00, 0x00, 0x00, 0x00], vec![0x00, 0xFF, 0xFF],
        ];
        for m in &mains {
            for cl in 0..=9usize {
                for jl in 0..=9usize {
                    if !thorough && cl > 5 && jl > 5 {
                        continue;
                    }
                    for rc in &rcs {
                        let mut blob = m.clone();
                        blob.extend((0..cl).map(|i| 0x10 + i as u8));
                        blob.extend((0..jl).map(|i| 0xF0 - i as u8));
                        blob.extend_from_slice(rc);
                        let bi = add_input(blob, &mut inputs);
                        for size in [0u64, 1, 5, 64, 1 << 20] {
                            cases.push(Case {
                                sub: None,
                                dec: Dec::Bcj2Split { size, main: m.len() as u16, call: cl as u16, jump: jl as u16 },
                                input: bi,
                                class: "bcj2-streams",
                            });
                        }
                    }
                }
            }
        }
    }

    // (ii) every corpus file x every position x every byte value (+ CRC fix-up variant)
    let items: Vec<corpus::Item> = corpus::small();
    for it in &items {
        let decs: Vec<Dec> = match &it.cont {
            Container::Xz { .. } => vec![Dec::XzMulti, Dec::XzSingle],
            Container::Lzip { .. } => vec![Dec::Lzip, Dec::LzipMt(2)],
            Container::Lzma2 | Container::Lzma2Chunk(_) => vec![Dec::Lzma2 { dict: it.opts.dict }, Dec::Lzma2Mt { dict: it.opts.dict, workers: 2 }],
            Container::LzmaHdrMarker | Container::LzmaHdrSize => vec![Dec::LzmaLimit(65536)],
            Container::LzmaRawMarker => vec![Dec::LzmaProps { props: it.opts.props(), dict: it.opts.dict, size: u64::MAX }],
            Container::LzmaRawSize => vec![Dec::LzmaProps { props: it.opts.props(), dict: it.opts.dict, size: it.input.len() as u64 }],
            _ => vec![],
        };
        if decs.is_empty() {
            continue;
        }
        let stride = if thorough || it.bytes.len() <= 200 { 1 } else { 2 };
        let base_ii = add_input(it.bytes.clone(), &mut inputs);
        let is_xz = matches!(it.cont, Container::Xz { .. });
        let positions: Vec<u32> = (0..it.bytes.len()).filter(|pos| *pos < 48 || pos + 48 >= it.bytes.len() || pos % stride == 0).map(|p| p as u32).collect();
        for d in &decs {
            // thread-spawning decoders and the second XZ mode get every 4th position (plus the
            // first and last 48 bytes) in the quick tier: a thread spawn costs ~0.4 ms per case
            let sparse = !thorough && matches!(d, Dec::LzipMt(_) | Dec::Lzma2Mt { .. } | Dec::XzSingle);
            let pos: Vec<u32> = if sparse {
                positions.iter().copied().filter(|p| (*p as usize) < 48 || *p as usize + 48 >= it.bytes.len() || p % 4 == 0).collect()
            } else {
                positions.clone()
            };
            blocks.push(CorpusBlock { input: base_ii, dec: d.clone(), fix: false, positions: pos });
        }
        if is_xz {
            let fixable: Vec<u32> = positions
                .iter()
                .copied()
                .filter(|pos| {
                    let mut probe = it.bytes.clone();
                    fix_crcs(&mut probe, &it.bytes, *pos as usize)
                })
                .collect();
            blocks.push(CorpusBlock { input: base_ii, dec: Dec::XzMulti, fix: true, positions: fixable });
        }
    }

    // (iii) field extremes
    for count in [0u64, 1, 127, 128, 1 << 32, (1 << 63) - 1] {
        for recs in [vec![], vec![(1u64, 1u64)], vec![(u64::MAX >> 1, u64::MAX >> 1)]] {
            let ii = add_input(xz_with_index(count, &recs), &mut inputs);
            cases.push(Case { sub: None, dec: Dec::XzMulti, input: ii, class: "xz-index-extreme" });
        }
    }
    for sb in 0..=255u8 {
        let ii = add_input(xz_with_block_header(&[0x00, 0x21, 0x01, 0x00], Some(sb), &[0x00]), &mut inputs);
        cases.push(Case { sub: None, dec: Dec::XzMulti, input: ii, class: "xz-header-extreme" });
    }
    for prop in 0..=255u8 {
        // valid header declaring every dictionary property, followed by an empty LZMA2 stream and by a tiny chunk
        for payload in [vec![0x00], vec![0x01, 0x00, 0x00, 0x41, 0x00]] {
            let ii = add_input(xz_with_block_header(&[0x00, 0x21, 0x01, prop], None, &payload), &mut inputs);
            cases.push(Case { sub: None, dec: Dec::XzMulti, input: ii, class: "xz-dict-prop" });
        }
    }
    for id in [0x00u8, 0x01, 0x02, 0x03, 0x04, 0x0B, 0x0C, 0x20, 0x21, 0x22, 0x7F] {
        for psize in [0u8, 1, 2, 4, 5, 0x7F] {
            for flags in [0x00u8, 0x01, 0x02, 0x03, 0x40, 0x80, 0xC0, 0xFF] {
                let mut body = vec![flags, id, psize];
                body.extend(std::iter::repeat(0xFF).take(psize.min(8) as usize));
                body.extend_from_slice(&[0x21, 0x01, 0x00]);
                let ii = add_input(xz_with_block_header(&body, None, &[0x00]), &mut inputs);
                cases.push(Case { sub: None, dec: Dec::XzMulti, input: ii, class: "xz-header-extreme" });
            }
        }
    }
    for ctrl in 0..=255u8 {
        for sz in [[0u8, 0], [0xFF, 0xFF]] {
            let mut s = vec![ctrl, sz[0], sz[1], sz[0], sz[1], 0x5D];
            s.extend_from_slice(&[0; 16]);
            let ii = add_input(s, &mut inputs);
            for &d in &[4096u32, 65536] {
                cases.push(Case { sub: None, dec: Dec::Lzma2 { dict: d }, input: ii, class: "lzma2-control" });
                cases.push(Case { sub: None, dec: Dec::Lzma2Mt { dict: d, workers: 2 }, input: ii, class: "lzma2-control" });
            }
        }
    }
    {
        // LZMA2 chunk sequences: the decoder state (dictionary reset seen, properties seen, state reset pending) after
        // each of these prefixes x every control byte x size fields x payload patterns, so that every control byte is
        // met in every state and with a payload long enough for the range decoder to start
        let o = crate::codec::Opts::small();
        let mut lz = crate::codec::encode(&Container::Lzma2, &o, b"aaaaaaaabbbbbbbb", &[]).unwrap();
        lz.pop(); // without the end marker
        let mut lz_unc = lz.clone();
        lz_unc.extend_from_slice(&[0x02, 0x00, 0x00, 0x41]);
        let prefixes: Vec<Vec<u8>> = vec![vec![], vec![0x01, 0x00, 0x00, 0x41], lz, lz_unc];
        for pre in &prefixes {
            for ctrl in 0..=255u8 {
                if !thorough && ctrl >= 0x80 && ctrl & 0x1F != 0 && ctrl & 0x1F != 0x1F {
                    continue; // the low five bits are only the top of the size: extremes in the quick tier
                }
                for unc in [[0u8, 0], [0xFF, 0xFF]] {
                    for comp in [[0u8, 0], [0, 4], [0, 5], [0xFF, 0xFF]] {
                        for pat in 0..3 {
                            let mut s = pre.clone();
                            s.push(ctrl);
                            s.extend_from_slice(&unc);
                            if ctrl >= 0x80 {
                                s.extend_from_slice(&comp);
                            } else if comp != [0, 0] {
                                continue; // uncompressed chunks have one size field
                            }
                            match pat {
                                0 => s.extend_from_slice(&[0; 24]),
                                1 => {
                                    s.push(0x5D);
                                    s.extend_from_slice(&[0; 23]);
                                }
                                _ => s.extend_from_slice(&[0xFF; 24]),
                            }
                            let ii = add_input(s, &mut inputs);
                            cases.push(Case { sub: None, dec: Dec::Lzma2 { dict: 4096 }, input: ii, class: "lzma2-chunk-seq" });
                            cases.push(Case { sub: None, dec: Dec::Lzma2Preset { dict: 4096 }, input: ii, class: "lzma2-chunk-seq" });
                            if pat == 0 || thorough {
                                cases.push(Case { sub: None, dec: Dec::Lzma2Mt { dict: 4096, workers: 2 }, input: ii, class: "lzma2-chunk-seq" });
                                cases.push(Case { sub: None, dec: Dec::Lzma2MtPreset { dict: 4096, workers: 2 }, input: ii, class: "lzma2-chunk-seq" });
                            }
                        }
                    }
                }
            }
        }
    }
    {
        // LZIP header / trailer extremes on a real member
        let o = crate::codec::Opts::small();
        let m = crate::codec::encode(&Container::Lzip { member: None }, &o, b"hello hello hello", &[]).unwrap();
        for b in 0..=255u8 {
            for off in [4usize, 5] {
                let mut f = m.clone();
                f[off] = b;
                let ii = add_input(f, &mut inputs);
                cases.push(Case { sub: None, dec: Dec::Lzip, input: ii, class: "lzip-extreme" });
                cases.push(Case { sub: None, dec: Dec::LzipMt(2), input: ii, class: "lzip-extreme" });
            }
        }
        let n = m.len();
        for val in [0u64, 1, 25, 26, n as u64 - 1, n as u64 + 1, 1 << 32, 1 << 63, u64::MAX] {
            for off in [n - 8, n - 16] {
                let mut f = m.clone();
                f[off..off + 8].copy_from_slice(&val.to_le_bytes());
                let ii = add_input(f, &mut inputs);
                cases.push(Case { sub: None, dec: Dec::Lzip, input: ii, class: "lzip-extreme" });
                cases.push(Case { sub: None, dec: Dec::LzipMt(2), input: ii, class: "lzip-extreme" });
            }
        }
    }

    // (iv) amplification shapes
    let ns: Vec<usize> = if thorough { vec![1, 100, 10_000, 400_000] } else { vec![1, 100, 10_000, 100_000] };
    {
        let o = crate::codec::Opts::small();
        let empty_member = crate::codec::encode(&Container::Lzip { member: None }, &o, b"", &[]).unwrap();
        let empty_xz = crate::codec::encode(&Container::Xz { check: 1, block: None, filters: vec![] }, &o, b"", &[]).unwrap();
        for &n in &ns {
            let ii = add_input(empty_member.repeat(n), &mut inputs);
            cases.push(Case { sub: None, dec: Dec::Lzip, input: ii, class: "amplification" });
            cases.push(Case { sub: None, dec: Dec::LzipMt(2), input: ii, class: "amplification" });
            let ii = add_input(empty_xz.repeat(n), &mut inputs);
            cases.push(Case { sub: None, dec: Dec::XzMulti, input: ii, class: "amplification" });
            // n one-byte LZMA2 units
            let mut s = vec![];
            for _ in 0..n {
                s.extend_from_slice(&[0x01, 0x00, 0x00, 0x41]);
            }
            s.push(0);
            let ii = add_input(s, &mut inputs);
            cases.push(Case { sub: None, dec: Dec::Lzma2 { dict: 4096 }, input: ii, class: "amplification" });
            cases.push(Case { sub: None, dec: Dec::Lzma2Mt { dict: 4096, workers: 2 }, input: ii, class: "amplification" });
            // n empty blocks inside one XZ stream is not expressible with this writer; n empty
            // independent LZMA2 chunks with state resets instead
            let mut s = vec![];
            for _ in 0..n {
                s.extend_from_slice(&[0x02, 0x00, 0x00, 0x42]);
            }
            s.push(0);
            let ii = add_input(s, &mut inputs);
            cases.push(Case { sub: None, dec: Dec::Lzma2 { dict: 4096 }, input: ii, class: "amplification" });
        }
    }
    let mut block_start = vec![];
    let mut total = cases.len();
    for b in &blocks {
        block_start.push(total);
        total += b.positions.len() * 255;
    }
    C06 { cases, blocks, block_start, total, inputs }
}

impl C06 {
    /// (decoder, stored input, substitution, class) of global case index i
    fn resolve(&self, i: usize) -> (Dec, usize, Option<(u32, u8, bool)>, &'static str) {
        if i < self.cases.len() {
            let c = &self.cases[i];
            return (c.dec.clone(), c.input, c.sub, c.class);
        }
        let bi = match self.block_start.binary_search(&i) {
            Ok(b) => b,
            Err(b) => b - 1,
        };
        let b = &self.blocks[bi];
        let off = i - self.block_start[bi];
        let pos = b.positions[off / 255];
        let orig = self.inputs[b.input][pos as usize];
        // the 255 values different from the original byte, in ascending order
        let k = (off % 255) as u8;
        let v = if k < orig { k } else { k + 1 };
        (b.dec.clone(), b.input, Some((pos, v, b.fix)), if b.fix { "corpus-byte+crc" } else { "corpus-byte" })
    }

    fn data(&self, i: usize) -> std::borrow::Cow<'_, [u8]> {
        let (_, input, sub, _) = self.resolve(i);
        let c = Case { dec: Dec::Lzip, input, sub, class: "" };
        match c.sub {
            None => std::borrow::Cow::Borrowed(&self.inputs[c.input]),
            Some((p, v, f)) => {
                let orig = &self.inputs[c.input];
                let mut m = orig.clone();
                m[p as usize] = v;
                if f {
                    fix_crcs(&mut m, orig, p as usize);
                }
                std::borrow::Cow::Owned(m)
            }
        }
    }
}

impl IsoCheck for C06 {
    fn n_cases(&self) -> usize {
        self.total
    }
    fn desc(&self, i: usize) -> String {
        let (dec, input, sub, class) = self.resolve(i);
        let c = Case { dec, input, sub, class };
        let d = &self.inputs[c.input];
        let base = if d.len() <= 64 { mc_core::report::hex(d) } else { format!("len{}:fnv{:016x}", d.len(), mc_core::report::fnv(d)) };
        match c.sub {
            None => format!("C06|{:?}|{}|{}", c.dec, c.class, base),
            Some((p, v, f)) => format!("C06|{:?}|{}|{}|sub@{}={:02x}{}", c.dec, c.class, base, p, v, if f { "+crc" } else { "" }),
        }
    }
    fn attrs(&self, i: usize) -> Vec<(String, String)> {
        let (dec, _, _, class) = self.resolve(i);
        vec![("decoder".into(), dec.family().into()), ("class".into(), class.into())]
    }
    fn huge_alloc_ok(&self, i: usize, size: u64) -> bool {
        let (dec, _, _, _) = self.resolve(i);
        let declared = declared_dict(&dec, &self.data(i));
        size <= declared + 64
    }
    fn run(&self, i: usize, rep: &Report) -> bool {
        let (dec, input, sub, class) = self.resolve(i);
        let c = Case { dec, input, sub, class };
        let data_cow = self.data(i);
        let data: &[u8] = &data_cow;
        let mk = |kind: &str, site: String, detail: String| {
            let mut v = Violation::new(kind, site, self.desc(i)).detail(detail);
            for (k, val) in self.attrs(i) {
                v = v.attr(&k, val);
            }
            rep.violation(v);
        };
        let declared = declared_dict(&c.dec, data);
        alloc::set_request_cap(crate::iso::REQUEST_CAP);
        let base = alloc::begin();
        let r = catch(|| run_decoder(&c.dec, data));
        let peak = alloc::peak_since(base) as u64;
        match r {
            Err(p) => {
                if alloc::cap_was_hit() && alloc::biggest_request() as u64 <= declared + 64 {
                    rep.add("inconclusive_huge_allocation", 1);
                    return false;
                }
                mk("panic", p.site(), format!("{}:{} {} | input={}", p.file, p.line, p.msg, brief(data)));
                false
            }
            Ok(_) => {
                let allowed = declared + 16 * data.len() as u64 + (16 << 20);
                if peak > allowed {
                    mk(
                        "allocation-blow-up",
                        "decoder allocated more than the declared dictionary plus 16x the input length plus 16 MiB".into(),
                        format!("peak {} bytes, declared dictionary {}, input {} bytes | input={}", peak, declared, data.len(), brief(data)),
                    );
                    false
                } else {
                    true
                }
            }
        }
    }
}

pub fn run(cli: &Cli, rep: &Report) {
    let thorough = cli.thorough();
    rep.rule(
        "E-enum in child processes: (i) every byte string of length <= 1, 2-byte strings over boundary bytes and MICRO({00,01,02,5D,80,E0,FF}, <=5) as input of every decoder (LZMA with memory limit, LZMA2 x 8 dictionary sizes, \
         LZMA2-MT, XZ multi/single, LZIP, LZIP-MT, BCJ x8, Delta, BCJ2), LZMAReader::new_with_props x props 0..=255 x 8 dictionary sizes x 4 declared sizes, filters x extreme start offsets/distances/sizes; \
         (ii) every corpus file x every byte position x all 255 other values, XZ additionally with the enclosing CRC32 recomputed; (iii) hand-made XZ indexes with record counts up to 2^63-1, all 256 block header size bytes, \
         all 256 dictionary properties, filter id/property-size/flag extremes, all 256 LZMA2 control bytes x chunk sizes {0,FFFF}, LZMA2 chunk sequences (4 decoder states reached by real prefixes, with and without preset dictionary) x control bytes x size fields x 3 payload patterns, all LZIP version/dictionary bytes and trailer size extremes; (iv) N = 1..10^5 empty LZIP members / empty XZ streams / \
         one-byte LZMA2 units. Monitors per case: panic, process death (abort, stack overflow on an 8 MiB stack, refused allocation), 6 s watchdog, peak heap <= declared dictionary + 16 x input + 16 MiB; non-trivial = the case ran to a verdict",
    );
    rep.assumption("each read call gets a 4 KiB buffer and the driver stops after 16 MiB of output, so long legitimate output is not flagged; 'bounded time' is the 6 s watchdog, not a complexity bound");
    rep.assumption("a declared dictionary above 1 GiB is not really allocated: the refused allocation is counted as inconclusive when it is no larger than the declared size");
    let c = build(thorough);
    rep.extra("cases", json!({"total": c.total, "explicit": c.cases.len(), "corpus_blocks": c.blocks.len(), "stored_inputs": c.inputs.len()}));
    let mut by_class = std::collections::BTreeMap::new();
    for k in &c.cases {
        *by_class.entry(k.class).or_insert(0u64) += 1;
    }
    for b in &c.blocks {
        *by_class.entry(if b.fix { "corpus-byte+crc" } else { "corpus-byte" }).or_insert(0u64) += (b.positions.len() * 255) as u64;
    }
    rep.extra("by_class", json!(by_class));
    let check: &'static C06 = Box::leak(Box::new(c));
    iso::run_isolated(cli, rep, check);
    for i in [0usize, check.n_cases() / 3, check.n_cases() / 2, check.n_cases() - 1] {
        rep.sample(json!({"case": check.desc(i)}));
    }
    let _ = lzip_members(&[]);
}
