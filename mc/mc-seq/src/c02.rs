//! C02 — XZ and LZIP containers round-trip every input under every option (E-enum), plus two
//! complete-domain sweeps of the dictionary-size header codecs.

use crate::codec::{Bcj, Container, Filt, Op, Opts, ALL_BCJ};
use crate::common::*;
use lzma_rust2::verif::diff;
use mc_core::gen::{self, Seg};
use mc_core::run::{par_for_with, Cli};
use mc_core::{Report, Violation};
use serde_json::json;
use std::sync::atomic::{AtomicU64, Ordering};

pub fn chains() -> Vec<Vec<Filt>> {
    let mut v: Vec<Vec<Filt>> = vec![vec![]];
    for b in ALL_BCJ {
        v.push(vec![Filt::Bcj(b, 0)]);
    }
    for d in [1u32, 2, 255, 256] {
        v.push(vec![Filt::Delta(d)]);
    }
    v.push(vec![Filt::Delta(1), Filt::Bcj(Bcj::X86, 0)]);
    v.push(vec![Filt::Bcj(Bcj::X86, 0), Filt::Bcj(Bcj::Arm, 0), Filt::Delta(2)]);
    v.push(vec![Filt::Bcj(Bcj::Ppc, 4096)]);
    v
}

#[derive(Clone)]
struct Case {
    cont: Container,
    opts: Opts,
    input: Input,
    ops: Vec<Op>,
}

impl Case {
    fn desc(&self) -> String {
        let ops = self
            .ops
            .iter()
            .map(|o| match o {
                Op::Write(n) => format!("w{n}"),
                Op::Empty => "e".into(),
                Op::Flush => "f".into(),
            })
            .collect::<Vec<_>>()
            .join(".");
        format!("C02|{}|{}|ops:{}|{}", self.cont.desc(), self.opts.desc(), if ops.is_empty() { "-" } else { &ops }, self.input.desc())
    }
}

pub fn pieces(total: usize, piece: usize) -> Vec<Op> {
    let mut v = vec![];
    let mut left = total;
    while left > piece {
        v.push(Op::Write(piece));
        left -= piece;
    }
    v
}

fn opts_with_dict(d: u32) -> Opts {
    Opts { dict: d, ..Opts::small() }
}

pub fn run(cli: &Cli, rep: &Report) {
    let thorough = cli.thorough();
    rep.rule(
        "E-enum: MICRO(A3,L) x {check types} x {block/member size unset, clamped to dict, huge} x 16 filter chains x dictionary sizes \
         (exactly representable and not); mechanism-forcing shapes x write partitions; complete-domain sweeps of the LZIP and XZ \
         dictionary-size header codecs; non-trivial = non-empty input that was encoded and decoded (distinct by case descriptor)",
    );
    rep.assumption("x86_64; domains as listed under `domains`; the crate's own reader is the oracle here (liblzma is C03)");
    let chains = chains();
    let mut cases: Vec<Case> = vec![];

    // XZ, micro inputs
    let l = if thorough { 6 } else { 4 };
    let n_micro = gen::micro_count(3, l);
    for s in 0..n_micro {
        let input = Input::Bytes(gen::micro_nth(&A3, s));
        for check in [0u8, 1, 4, 10] {
            for block in [None, Some(1u64), Some(1 << 30)] {
                for ch in &chains {
                    for dict in [4096u32, 5000, 1 << 20] {
                        // keep the product affordable: the 1 MiB dictionary only with the first chains
                        if dict == 1 << 20 && (ch.len() > 1 || check != 1) {
                            continue;
                        }
                        cases.push(Case {
                            cont: Container::Xz { check, block, filters: ch.clone() },
                            opts: opts_with_dict(dict),
                            input: input.clone(),
                            ops: vec![],
                        });
                    }
                }
            }
        }
        for dict in [4096u32, 5000, 65535, 65536, (1 << 20) + 1] {
            for member in [None, Some(1u64), Some(1 << 30)] {
                cases.push(Case { cont: Container::Lzip { member }, opts: opts_with_dict(dict), input: input.clone(), ops: vec![] });
            }
        }
    }
    let n_micro_cases = cases.len();

    // shapes with write partitions (block/member boundaries are only looked at between writes)
    let mut shapes: Vec<Vec<Seg>> = vec![
        vec![Seg::C(9000)],
        vec![Seg::X(9000)],
        vec![Seg::P(3, 9000)],
        vec![Seg::R(9000)],
        vec![Seg::Z(9000)],
        vec![Seg::C(5000), Seg::R(5000)],
        vec![Seg::X(20000)],
        vec![Seg::C(4096)],
        vec![Seg::C(4097)],
        vec![Seg::R(70000)],
        // LZMA2 state resets inside a block: LZMA chunk, uncompressed chunks, LZMA chunk again (see C03)
        vec![Seg::C(5000), Seg::R(140_000), Seg::P(3, 5000)],
        vec![Seg::C(5000), Seg::R(140_000), Seg::C(5000)],
    ];
    if thorough {
        shapes.push(vec![Seg::X(300_000)]);
        shapes.push(vec![Seg::C(100_000), Seg::R(70_000), Seg::Z(100_000)]);
        shapes.push(vec![Seg::Z((2 << 20) + 1)]);
    }
    for sh in &shapes {
        let total: usize = sh.iter().map(|s| s.len()).sum();
        let input = Input::Shape(sh.clone());
        let opsets: Vec<Vec<Op>> = vec![vec![], pieces(total, 1000), pieces(total, 4096), pieces(total, 4097)];
        for ops in &opsets {
            for check in [1u8, 10] {
                for block in [None, Some(1u64), Some(6000)] {
                    for ch in &chains {
                        for dict in [4096u32, 5000, 65536] {
                            cases.push(Case {
                                cont: Container::Xz { check, block, filters: ch.clone() },
                                opts: opts_with_dict(dict),
                                input: input.clone(),
                                ops: ops.clone(),
                            });
                        }
                    }
                }
            }
            for dict in [4096u32, 5000, 65535, 65536, (1 << 20) + 1] {
                for member in [None, Some(1u64), Some(6000)] {
                    for fast in [true, false] {
                        let mut o = opts_with_dict(dict);
                        o.fast = fast;
                        o.bt4 = !fast;
                        cases.push(Case { cont: Container::Lzip { member }, opts: o, input: input.clone(), ops: ops.clone() });
                    }
                }
            }
        }
    }
    // a block of more than 2^24 (thorough: 2^28) bytes: its size needs a four- (five-) byte multibyte integer in the index;
    // written in one call and in 1 MiB pieces, with and without a block size that splits it
    {
        let mut big = vec![(1usize << 24) + 1];
        if thorough {
            big.push((1 << 28) + 1);
        }
        for total in big {
            for ops in [vec![], pieces(total, 1 << 20)] {
                for (check, block) in [(1u8, None), (4, Some(1u64 << 22)), (0, None)] {
                    cases.push(Case { cont: Container::Xz { check, block, filters: vec![] }, opts: opts_with_dict(65536), input: Input::Shape(vec![Seg::Z(total)]), ops: ops.clone() });
                }
                cases.push(Case { cont: Container::Lzip { member: None }, opts: opts_with_dict(65536), input: Input::Shape(vec![Seg::Z(total)]), ops });
            }
        }
    }
    // more than 1024 blocks in one stream (the index is read back record by record): 1023, 1024, 1025 and 1100 blocks of
    // 4096 bytes, the last one short
    for blocks in [1023usize, 1024, 1025, 1100] {
        let total = 4096 * (blocks - 1) + 5;
        cases.push(Case { cont: Container::Xz { check: 1, block: Some(4096), filters: vec![] }, opts: opts_with_dict(4096), input: Input::Shape(vec![Seg::Z(total)]), ops: vec![] });
    }
    rep.extra("cases", json!({"micro_len": l, "micro_strings": n_micro, "micro_cases": n_micro_cases, "shape_cases": cases.len() - n_micro_cases, "chains": chains.len(), "shapes": shapes.len()}));

    let n = cases.len();
    par_for_with(
        n,
        0,
        |_| (0u64, Vec::<u64>::new()),
        |st, i| {
            let case = &cases[i];
            if !cli.selected_with(|| case.desc()) {
                return;
            }
            st.0 += 1;
            let input = case.input.build(cli.seed);
            let exact_dict = matches!(case.opts.dict, 4096 | 65536 | 1048576);
            let attrs = [
                ("family", case.cont.family().to_string()),
                ("dict_exact", exact_dict.to_string()),
                ("input", if input.is_empty() { "empty".into() } else { case.input.class().to_string() }),
                ("bcj", match &case.cont {
                    Container::Xz { filters, .. } => filters.iter().any(|f| matches!(f, Filt::Bcj(..))).to_string(),
                    _ => "false".into(),
                }),
                ("multiwrite", (!case.ops.is_empty()).to_string()),
            ];
            let (out, _) = round_trip(rep, &|| case.desc(), &attrs, &case.cont, &case.opts, &input, &case.ops, true);
            if matches!(out, RtOutcome::Ok { .. }) && !input.is_empty() {
                st.1.push(hash_desc(&case.desc()));
            }
            if i % (n / 6 + 1) == 0 {
                rep.sample(json!({"case": case.desc()}));
            }
        },
        |st| {
            rep.add("evaluations", st.0);
            rep.nontrivial_many(&st.1);
            flush_cov(rep);
        },
    );

    if cli.only.as_ref().is_none_or(|o| o.iter().any(|d| d.starts_with("C02|sweep|"))) {
        sweeps(cli, rep, thorough);
    }
}

/// Complete-domain enumeration of the header dictionary-size codecs: the size the reader will
/// derive from the header byte must never be smaller than the size the encoder was given.
fn xz_prop_decode(p: u8) -> u64 {
    if p == 40 {
        0xFFFF_FFFF
    } else {
        ((2 | (p & 1) as u64) << (p / 2 + 11)) as u64
    }
}

/// one value of the LZIP sweep; false = bad (reported when `report`)
fn lzip_one(rep: &Report, d: u32, report: bool) -> bool {
    let byte = diff::lzip_encode_dict_size(d);
    let back = byte.and_then(diff::lzip_decode_dict_size);
    let ok = matches!(back, Some(b) if b >= d);
    if !ok && report {
        rep.violation(
            Violation::new("header-dict-too-small", "lzip dictionary size byte decodes to less than the encoder's dictionary", format!("C02|sweep|lzip|d={d}"))
                .attr("family", "lzip")
                .attr("sweep", "lzip-dict-byte")
                .detail(format!("dict_size={d} header byte={byte:?} decodes to {back:?}")),
        );
    }
    ok
}

/// one value of the XZ sweep
fn xz_one(rep: &Report, d: u64, report: bool) -> bool {
    let p = diff::xz_encode_lzma2_dict_size(d as u32);
    let ok = match p {
        None => d > (3u64 << 30), // sizes above the largest representable one (3 GiB) may be refused
        Some(p) => p <= 40 && xz_prop_decode(p) >= d,
    };
    if !ok && report {
        rep.violation(
            Violation::new("header-dict-too-small", "xz LZMA2 dictionary size property decodes to less than the encoder's dictionary", format!("C02|sweep|xz|d={d}"))
                .attr("family", "xz")
                .attr("sweep", "xz-dict-prop")
                .detail(format!("dict_size={d} prop={p:?} decodes to {:?}", p.map(xz_prop_decode))),
        );
    }
    ok
}

/// one value of the XZ multibyte-integer sweep
fn vli_one(rep: &Report, v: u64, report: bool) -> bool {
    let (counted, enc, parsed, counted_from_bytes) = diff::xz_multibyte_integer(v);
    let want = if v == 0 { 1 } else { (64 - v.leading_zeros() as usize).div_ceil(7) };
    let problem = match enc {
        None => {
            if v <= u64::MAX / 2 {
                Some("a 63-bit value is refused".to_string())
            } else {
                None
            }
        }
        Some((_, n)) => {
            if v > u64::MAX / 2 {
                Some("a value above 2^63 - 1 is encoded".to_string())
            } else if n != want || counted != n || counted_from_bytes != n || parsed != Some(v) {
                Some(format!("encoded in {n} bytes (format: {want}), size function says {counted}, size from bytes {counted_from_bytes}, parsed back {parsed:?}"))
            } else {
                None
            }
        }
    };
    if let (Some(p), true) = (&problem, report) {
        rep.violation(
            Violation::new("vli-mismatch", "xz multibyte integer: size function, encoder and parser disagree", format!("C02|sweep|vli|v={v}"))
                .attr("family", "xz")
                .attr("sweep", "xz-vli")
                .detail(p.clone()),
        );
    }
    problem.is_none()
}

fn sweeps(cli: &Cli, rep: &Report, thorough: bool) {
    if let Some(only) = &cli.only {
        // replay: just the values named by the selected descriptors
        for desc in only {
            if let Some(d) = desc.strip_prefix("C02|sweep|lzip|d=").and_then(|x| x.parse::<u32>().ok()) {
                rep.add("evaluations", 1);
                lzip_one(rep, d, true);
            } else if let Some(d) = desc.strip_prefix("C02|sweep|xz|d=").and_then(|x| x.parse::<u64>().ok()) {
                rep.add("evaluations", 1);
                xz_one(rep, d, true);
            } else if let Some(v) = desc.strip_prefix("C02|sweep|vli|v=").and_then(|x| x.parse::<u64>().ok()) {
                rep.add("evaluations", 1);
                vli_one(rep, v, true);
            }
        }
        return;
    }
    // LZIP: every d in 4096..=512 MiB (thorough) / every d below 2^22 plus +-2 around every
    // representable size and power of two (quick).
    let lzip_ranges: Vec<(u32, u32)> = if thorough {
        vec![(4096, 512 << 20)]
    } else {
        let mut v = vec![(4096u32, 1 << 22)];
        for lg in 12..=29u32 {
            for fr in 0..=7u32 {
                let d = (1u32 << lg) - (1u32 << (lg - 4)) * fr;
                v.push((d.saturating_sub(2).max(4096), (d + 2).min(512 << 20)));
            }
        }
        v
    };
    let bad = AtomicU64::new(0);
    let evals = AtomicU64::new(0);
    for (lo, hi) in lzip_ranges {
        if hi < lo {
            continue;
        }
        let span = (hi - lo) as usize + 1;
        let blocks = span.div_ceil(1 << 16);
        par_for_with(
            blocks,
            1,
            |_| 0u64,
            |cnt, b| {
                let start = lo as u64 + (b as u64) * (1 << 16);
                let end = (start + (1 << 16)).min(hi as u64 + 1);
                let mut reported = 0;
                for d in start..end {
                    *cnt += 1;
                    // the first two bad values of every block are reported (a deterministic set)
                    if !lzip_one(rep, d as u32, reported < 2) {
                        bad.fetch_add(1, Ordering::Relaxed);
                        reported += 1;
                    }
                }
            },
            |cnt| {
                evals.fetch_add(cnt, Ordering::Relaxed);
            },
        );
    }
    rep.add("sweep.lzip_dict_sizes", evals.load(Ordering::Relaxed));
    rep.add("sweep.lzip_bad", bad.load(Ordering::Relaxed));
    rep.add("evaluations", evals.load(Ordering::Relaxed));

    // XZ / LZMA2 property byte: every u32 >= 4096 (thorough) / boundaries (quick)
    let decode = xz_prop_decode;
    let xz_ranges: Vec<(u64, u64)> = if thorough {
        vec![(4096, u32::MAX as u64)]
    } else {
        let mut v = vec![(4096u64, 1 << 20)];
        for p in 0..=40u8 {
            let d = decode(p);
            v.push((d.saturating_sub(2).max(4096), (d + 2).min(u32::MAX as u64)));
        }
        v
    };
    let bad2 = AtomicU64::new(0);
    let evals2 = AtomicU64::new(0);
    for (lo, hi) in xz_ranges {
        if hi < lo {
            continue;
        }
        let span = (hi - lo) as usize + 1;
        let blocks = span.div_ceil(1 << 18);
        par_for_with(
            blocks,
            1,
            |_| 0u64,
            |cnt, b| {
                let start = lo + (b as u64) * (1 << 18);
                let end = (start + (1 << 18)).min(hi + 1);
                let mut reported = 0;
                for d in start..end {
                    *cnt += 1;
                    if !xz_one(rep, d, reported < 2) {
                        bad2.fetch_add(1, Ordering::Relaxed);
                        reported += 1;
                    }
                }
            },
            |cnt| {
                evals2.fetch_add(cnt, Ordering::Relaxed);
            },
        );
    }
    rep.add("sweep.xz_dict_sizes", evals2.load(Ordering::Relaxed));
    rep.add("sweep.xz_bad", bad2.load(Ordering::Relaxed));
    rep.add("evaluations", evals2.load(Ordering::Relaxed));
    // XZ multibyte integers: the size the index / footer arithmetic assumes, the bytes written and the parser must agree
    // for every value 2^k - 1, 2^k, 2^k + 1 (k = 0..63), every value below 2^17, and 3 * 2^k, 5 * 2^k, 2^k + 2^(k-4)
    let mut vli_values: Vec<u64> = (0..(1u64 << 17)).collect();
    for k in 0..64u32 {
        let p = 1u64 << k;
        for v in [p.wrapping_sub(1), p, p.wrapping_add(1), p.wrapping_mul(3), p.wrapping_mul(5), p.wrapping_add(p >> 4)] {
            vli_values.push(v);
        }
    }
    vli_values.push(u64::MAX / 2);
    vli_values.push(u64::MAX);
    let mut vli_bad = 0u64;
    for &v in &vli_values {
        if !vli_one(rep, v, vli_bad < 16) {
            vli_bad += 1;
        }
    }
    rep.add("sweep.xz_vli_values", vli_values.len() as u64);
    rep.add("evaluations", vli_values.len() as u64);
    rep.sample(json!({"sweep": "lzip encode/decode_dict_size and xz encode_lzma2_dict_size", "lzip_values": evals.load(Ordering::Relaxed), "xz_values": evals2.load(Ordering::Relaxed)}));
}
