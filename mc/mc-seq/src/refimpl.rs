//! Reference implementation (liblzma, statically linked from the cargo cache) wrappers.

use crate::codec::{Bcj, Filt, Opts};
use liblzma::stream::{Action, Check, Filters, LzmaOptions, MatchFinder, Mode, Status, Stream};

fn run(mut s: Stream, input: &[u8], limit: usize) -> Result<(Vec<u8>, u64), String> {
    let mut out: Vec<u8> = Vec::with_capacity(64 * 1024);
    let mut consumed = 0usize;
    loop {
        if out.capacity() - out.len() < 32 * 1024 {
            out.reserve(out.capacity().max(64 * 1024));
        }
        let before_in = s.total_in();
        let before_out = out.len();
        let st = s
            .process_vec(&input[consumed..], &mut out, Action::Finish)
            .map_err(|e| format!("{e:?}"))?;
        consumed += (s.total_in() - before_in) as usize;
        if out.len() > limit {
            return Err("ref: output exceeds bound".into());
        }
        match st {
            Status::StreamEnd => return Ok((out, s.total_in())),
            Status::Ok | Status::GetCheck => {
                if s.total_in() == before_in && out.len() == before_out && consumed >= input.len() {
                    // no progress possible: truncated input
                    // one more call yields BufError, treat as truncated
                    return Err("ref: truncated (no progress)".into());
                }
            }
            Status::MemNeeded => return Err("ref: MemNeeded".into()),
        }
    }
}

pub fn ref_lzma_options(o: &Opts) -> LzmaOptions {
    let mut lo = LzmaOptions::new_preset(6).unwrap();
    lo.dict_size(o.dict)
        .literal_context_bits(o.lc)
        .literal_position_bits(o.lp)
        .position_bits(o.pb)
        .mode(if o.fast { Mode::Fast } else { Mode::Normal })
        .nice_len(o.nice.clamp(2, 273))
        .match_finder(if o.bt4 { MatchFinder::BinaryTree4 } else { MatchFinder::HashChain4 })
        .depth(o.depth.max(0) as u32);
    lo
}

pub fn check_of(c: u8) -> Check {
    match c {
        0 => Check::None,
        1 => Check::Crc32,
        4 => Check::Crc64,
        _ => Check::Sha256,
    }
}

fn push_filter(f: &mut Filters, filt: &Filt) -> Result<(), String> {
    match filt {
        Filt::Delta(d) => {
            f.delta_properties(&[(*d - 1) as u8]).map_err(|e| format!("{e:?}"))?;
        }
        Filt::Bcj(b, start) => {
            let props = start.to_le_bytes();
            let p: &[u8] = if *start == 0 { &[] } else { &props };
            let r = match b {
                Bcj::X86 => f.x86_properties(p),
                Bcj::Arm => f.arm_properties(p),
                Bcj::ArmThumb => f.arm_thumb_properties(p),
                Bcj::Arm64 => f.arm64_properties(p),
                Bcj::Ppc => f.powerpc_properties(p),
                Bcj::Sparc => f.sparc_properties(p),
                Bcj::Ia64 => f.ia64_properties(p),
                Bcj::RiscV => f.riscv_properties(p),
            };
            r.map_err(|e| format!("{e:?}"))?;
        }
    }
    Ok(())
}

/// Decode a complete .xz file (all concatenated streams) with liblzma.
pub fn xz_decode(data: &[u8], limit: usize) -> Result<Vec<u8>, String> {
    let s = Stream::new_stream_decoder(u64::MAX, liblzma::stream::CONCATENATED).map_err(|e| format!("{e:?}"))?;
    let (out, used) = run(s, data, limit)?;
    if used as usize != data.len() {
        return Err(format!("ref: consumed {} of {}", used, data.len()));
    }
    Ok(out)
}

/// Decode a single .xz stream; returns (content, bytes consumed).
pub fn xz_decode_single(data: &[u8], limit: usize) -> Result<(Vec<u8>, usize), String> {
    let s = Stream::new_stream_decoder(u64::MAX, 0).map_err(|e| format!("{e:?}"))?;
    let (out, used) = run(s, data, limit)?;
    Ok((out, used as usize))
}

/// Decode a .lzma (alone) file with liblzma; returns (content, bytes consumed).
pub fn alone_decode(data: &[u8], limit: usize) -> Result<(Vec<u8>, usize), String> {
    let s = Stream::new_lzma_decoder(u64::MAX).map_err(|e| format!("{e:?}"))?;
    let (out, used) = run(s, data, limit)?;
    Ok((out, used as usize))
}

pub fn lzip_decode(data: &[u8], limit: usize) -> Result<Vec<u8>, String> {
    let s = Stream::new_lzip_decoder(u64::MAX, liblzma::stream::CONCATENATED).map_err(|e| format!("{e:?}"))?;
    let (out, used) = run(s, data, limit)?;
    if used as usize != data.len() {
        return Err(format!("ref: consumed {} of {}", used, data.len()));
    }
    Ok(out)
}

/// Decode a raw LZMA2 stream (with optional pre-filters) with liblzma.
pub fn raw_lzma2_decode(data: &[u8], dict: u32, pre: &[Filt], limit: usize) -> Result<(Vec<u8>, usize), String> {
    let mut lo = LzmaOptions::new_preset(6).unwrap();
    lo.dict_size(dict);
    let mut f = Filters::new();
    for p in pre {
        push_filter(&mut f, p)?;
    }
    f.lzma2(&lo);
    let s = Stream::new_raw_decoder(&f).map_err(|e| format!("{e:?}"))?;
    let (out, used) = run(s, data, limit)?;
    Ok((out, used as usize))
}

/// Decode a raw LZMA1 stream with liblzma (end marker required or size must match input end).
pub fn raw_lzma1_decode(data: &[u8], o: &Opts, limit: usize) -> Result<(Vec<u8>, usize), String> {
    let lo = ref_lzma_options(o);
    let mut f = Filters::new();
    f.lzma1(&lo);
    let s = Stream::new_raw_decoder(&f).map_err(|e| format!("{e:?}"))?;
    let (out, used) = run(s, data, limit)?;
    Ok((out, used as usize))
}

pub fn xz_encode(data: &[u8], o: &Opts, check: u8, pre: &[Filt]) -> Result<Vec<u8>, String> {
    let lo = ref_lzma_options(o);
    let mut f = Filters::new();
    for p in pre {
        push_filter(&mut f, p)?;
    }
    f.lzma2(&lo);
    let s = Stream::new_stream_encoder(&f, check_of(check)).map_err(|e| format!("{e:?}"))?;
    Ok(run(s, data, usize::MAX)?.0)
}

pub fn xz_encode_preset(data: &[u8], preset: u32, check: u8) -> Result<Vec<u8>, String> {
    let s = Stream::new_easy_encoder(preset, check_of(check)).map_err(|e| format!("{e:?}"))?;
    Ok(run(s, data, usize::MAX)?.0)
}

/// Multi-block .xz via liblzma's MT encoder with a block size.
pub fn xz_encode_blocks(data: &[u8], preset: u32, check: u8, block: u64, threads: u32) -> Result<Vec<u8>, String> {
    let mut b = liblzma::stream::MtStreamBuilder::new();
    b.preset(preset).check(check_of(check)).block_size(block).threads(threads);
    let s = b.encoder().map_err(|e| format!("{e:?}"))?;
    Ok(run(s, data, usize::MAX)?.0)
}

pub fn alone_encode(data: &[u8], o: &Opts) -> Result<Vec<u8>, String> {
    let lo = ref_lzma_options(o);
    let s = Stream::new_lzma_encoder(&lo).map_err(|e| format!("{e:?}"))?;
    Ok(run(s, data, usize::MAX)?.0)
}

pub fn raw_lzma2_encode(data: &[u8], o: &Opts, pre: &[Filt]) -> Result<Vec<u8>, String> {
    let lo = ref_lzma_options(o);
    let mut f = Filters::new();
    for p in pre {
        push_filter(&mut f, p)?;
    }
    f.lzma2(&lo);
    let s = Stream::new_raw_encoder(&f).map_err(|e| format!("{e:?}"))?;
    Ok(run(s, data, usize::MAX)?.0)
}

/// The bytes liblzma's filter `filt` produces for `data`: raw-encode with [filt, LZMA2], then
/// raw-decode with [LZMA2] only.
pub fn filter_encode(data: &[u8], filt: &Filt) -> Result<Vec<u8>, String> {
    let o = Opts { dict: 1 << 20, ..Opts::small() };
    let enc = raw_lzma2_encode(data, &o, std::slice::from_ref(filt))?;
    let (out, _) = raw_lzma2_decode(&enc, o.dict, &[], data.len() + 1024)?;
    Ok(out)
}

/// Inverse direction: what liblzma's decoder-side filter produces for `data`.
pub fn filter_decode(data: &[u8], filt: &Filt) -> Result<Vec<u8>, String> {
    let o = Opts { dict: 1 << 20, ..Opts::small() };
    let enc = raw_lzma2_encode(data, &o, &[])?;
    let (out, _) = raw_lzma2_decode(&enc, o.dict, std::slice::from_ref(filt), data.len() + 1024)?;
    Ok(out)
}
