//! C18 (sequential part) — block/member size options and the .lzma declared size are honoured.

use crate::c04::{lzip_members, xz_layout};
use crate::codec::{self, Container, Filt, Op, Opts};
use crate::common::*;
use lzma_rust2::LZMAWriter;
use mc_core::gen::{self, Seg};
use mc_core::run::{catch, par_for_with, Cli};
use mc_core::{Report, Violation};
use serde_json::json;
use std::io::Write;

/// Uncompressed sizes of the blocks of a single-stream XZ file, from its index.
fn xz_block_sizes(f: &[u8]) -> Option<Vec<u64>> {
    let l = xz_layout(f)?;
    let mut p = l.index_start + 1;
    let rd = |p: &mut usize| -> Option<u64> {
        let mut v = 0u64;
        let mut sh = 0;
        loop {
            let b = *f.get(*p)?;
            *p += 1;
            v |= ((b & 0x7F) as u64) << sh;
            sh += 7;
            if b & 0x80 == 0 {
                return Some(v);
            }
        }
    };
    let n = rd(&mut p)?;
    let mut v = vec![];
    for _ in 0..n {
        let _unpadded = rd(&mut p)?;
        v.push(rd(&mut p)?);
    }
    Some(v)
}

fn lzip_member_sizes(f: &[u8]) -> Vec<u64> {
    lzip_members(f).iter().map(|(_, e)| u64::from_le_bytes(f[e - 16..e - 8].try_into().unwrap())).collect()
}

/// Write partitions with <= 2 cuts from the boundary set, including one huge write.
fn partitions(n: usize, s: usize) -> Vec<Vec<Op>> {
    let mut cuts: Vec<usize> = [1usize, s - 1, s, s + 1, 2 * s, 2 * s + 1, n / 2, n.saturating_sub(1)].into_iter().filter(|c| *c > 0 && *c < n).collect();
    cuts.sort_unstable();
    cuts.dedup();
    let mut out = vec![vec![]];
    for i in 0..cuts.len() {
        out.push(vec![Op::Write(cuts[i])]);
        for j in i + 1..cuts.len() {
            out.push(vec![Op::Write(cuts[i]), Op::Write(cuts[j] - cuts[i])]);
        }
    }
    // many small writes
    if n > 0 {
        out.push(crate::c02::pieces(n, 1000));
        out.push(crate::c02::pieces(n, s));
    }
    out
}

pub fn run(cli: &Cli, rep: &Report) {
    let thorough = cli.thorough();
    rep.rule(
        "E-env over caller histories: inputs of length {0,1,S-1,S,S+1,2S,2S+1,3S+7} for unit size S (dict 4096; configured size below, equal to and above the dictionary) x every write partition with <= 2 cuts \
         from a boundary set (including one huge write) plus 1000-byte and S-byte pieces; the produced XZ/LZIP file is walked by the harness (index records / member trailers): every block/member must hold \
         <= max(configured, dict) bytes and the sizes must sum to the input; .lzma with expected size E in {0,1,n-1,n,n+1}: over-long writes must fail, short finishes must fail, and on success header bytes 5..13 hold n; \
         non-trivial = the file has at least two blocks/members or an expected size was enforced",
    );
    let dict = 4096usize;
    #[derive(Clone)]
    struct Case {
        cont: Container,
        limit: u64,
        n: usize,
        ops: Vec<Op>,
        kind: u8,
    }
    let mut cases: Vec<Case> = vec![];
    for (configured, effective) in [(1u64, dict as u64), (4096, 4096), (6000, 6000), (1 << 30, 1 << 30)] {
        let s = effective.min(8192) as usize;
        let mut lens = vec![0usize, 1, s - 1, s, s + 1, 2 * s, 2 * s + 1, 3 * s + 7];
        if thorough {
            lens.push(10 * s + 3);
        }
        for n in lens {
            for ops in partitions(n, s) {
                cases.push(Case { cont: Container::Xz { check: 1, block: Some(configured), filters: vec![] }, limit: effective, n, ops: ops.clone(), kind: 0 });
                cases.push(Case { cont: Container::Xz { check: 4, block: Some(configured), filters: vec![Filt::Delta(1)] }, limit: effective, n, ops: ops.clone(), kind: 0 });
                cases.push(Case { cont: Container::Lzip { member: Some(configured) }, limit: effective, n, ops, kind: 1 });
            }
        }
    }
    rep.extra("cases", json!({"xz_lzip_histories": cases.len()}));
    let o = Opts::small();
    par_for_with(
        cases.len(),
        0,
        |_| (0u64, Vec::<u64>::new()),
        |st, i| {
            let c = &cases[i];
            let desc = || {
                format!(
                    "C18|{}|n{}|{}",
                    c.cont.desc(),
                    c.n,
                    if c.ops.is_empty() { "one-write".to_string() } else { c.ops.iter().map(|o| if let Op::Write(k) = o { format!("w{k}") } else { "?".into() }).collect::<Vec<_>>().join(".") }
                )
            };
            if !cli.selected_with(desc) {
                return;
            }
            st.0 += 1;
            let input = gen::build(&[Seg::C(c.n)], 3);
            let mk = |kind: &str, site: &str, detail: String| {
                rep.violation(Violation::new(kind, site, desc()).attr("family", c.cont.family()).attr("writes", if c.ops.is_empty() { "one" } else { "many" }).detail(detail));
            };
            let file = match catch(|| codec::encode(&c.cont, &o, &input, &c.ops)) {
                Ok(Ok(f)) => f,
                Ok(Err(e)) => return mk("encode-error", &format!("{:?}", e.kind()), e.to_string()),
                Err(p) => return mk("panic", &p.site(), p.msg),
            };
            let sizes = if c.kind == 0 {
                match xz_block_sizes(&file) {
                    Some(s) => s,
                    None => return mk("unparsable", "harness cannot walk the XZ index", String::new()),
                }
            } else {
                lzip_member_sizes(&file)
            };
            if sizes.iter().sum::<u64>() != c.n as u64 {
                return mk("size-sum", "block/member sizes do not add up to the input length", format!("{sizes:?} vs {}", c.n));
            }
            if let Some(big) = sizes.iter().find(|s| **s > c.limit) {
                return mk(
                    "oversized-unit",
                    if c.kind == 0 { "XZ block holds more uncompressed data than the configured block size" } else { "LZIP member holds more uncompressed data than the configured member size" },
                    format!("limit {} (configured, raised to the dictionary size), found {} in {:?}", c.limit, big, sizes),
                );
            }
            if sizes.len() >= 2 {
                st.1.push(hash_desc(&desc()));
            }
        },
        |st| {
            rep.add("evaluations", st.0);
            rep.nontrivial_many(&st.1);
        },
    );

    // unit sizes above 1 MiB for the multi-threaded writers (real threads; sizes do not depend on the schedule): configured
    // 1.5 MiB with a small dictionary, and configured 1 raised to a 2 MiB dictionary; input = two full units and a rest
    {
        use lzma_rust2::{LZIPOptions, LZIPWriterMT, LZMA2Options, LZMA2WriterMT};
        use std::num::NonZeroU64;
        for (lzip, dictb, configured, effective) in [(true, 65536u32, 3u64 << 19, 3usize << 19), (true, 2 << 20, 1, 2 << 20), (false, 65536, 3 << 19, 3 << 19), (false, 2 << 20, 1, 2 << 20)] {
            let desc = || format!("C18|mt-large-units|{}|dict{}|size{}", if lzip { "lzip" } else { "lzma2" }, dictb, configured);
            if !cli.selected_with(desc) {
                continue;
            }
            rep.add("evaluations", 1);
            let n = 2 * effective + 12_345;
            let input = gen::build(&[Seg::C(n)], 9);
            let lo = Opts { dict: dictb, ..Opts::small() }.lzma();
            let r = catch(|| -> std::io::Result<Vec<u64>> {
                if lzip {
                    let mut w = LZIPWriterMT::new(Vec::new(), LZIPOptions { lzma_options: lo.clone(), member_size: NonZeroU64::new(configured) }, 2)?;
                    w.write_all(&input)?;
                    let f = w.finish()?;
                    Ok(lzip_member_sizes(&f))
                } else {
                    let mut w = LZMA2WriterMT::new(Vec::new(), LZMA2Options { lzma_options: lo.clone(), chunk_size: NonZeroU64::new(configured) }, 2)?;
                    w.write_all(&input)?;
                    let f = w.finish()?;
                    // uncompressed sizes of the independent units (a unit starts at a chunk with a dictionary reset)
                    let mut sizes: Vec<u64> = vec![];
                    let mut i = 0;
                    while i < f.len() && f[i] != 0 {
                        let c = f[i];
                        let (un, step) = if c >= 0x80 {
                            let un = (((c & 0x1F) as u64) << 16) + u16::from_be_bytes([f[i + 1], f[i + 2]]) as u64 + 1;
                            let cs = u16::from_be_bytes([f[i + 3], f[i + 4]]) as usize + 1;
                            (un, 5 + if c >= 0xC0 { 1 } else { 0 } + cs)
                        } else {
                            let un = u16::from_be_bytes([f[i + 1], f[i + 2]]) as u64 + 1;
                            (un, 3 + un as usize)
                        };
                        if c >= 0xE0 || c == 0x01 || sizes.is_empty() {
                            sizes.push(0);
                        }
                        *sizes.last_mut().unwrap() += un;
                        i += step;
                    }
                    Ok(sizes)
                }
            });
            let mk = |kind: &str, site: &str, detail: String| rep.violation(Violation::new(kind, site, desc()).attr("family", if lzip { "lzip" } else { "lzma2" }).attr("writes", "mt-large").detail(detail));
            match r {
                Err(p) => mk("panic", &p.site(), p.msg),
                Ok(Err(e)) => mk("error", "the multi-threaded writer failed", e.to_string()),
                Ok(Ok(sizes)) => {
                    let want = vec![effective as u64, effective as u64, 12_345];
                    if sizes != want {
                        mk("unit-size", "the multi-threaded writer did not cut units of exactly the configured size (raised to the dictionary size)", format!("units {:?}, expected {:?}", &sizes[..sizes.len().min(6)], want));
                    } else {
                        rep.nontrivial(hash_desc(&desc()));
                    }
                }
            }
        }
    }

    // .lzma expected size
    // (n, expected, write partition, use_header, use_end_marker): the full constructor takes the two flags independently
    let mut ecases: Vec<(usize, i64, Vec<usize>, bool, bool)> = vec![];
    for n in [0usize, 1, 2, 300, 5000] {
        for delta in [-2i64, -1, 0, 1, 2] {
            let e = n as i64 + delta;
            if e < 0 {
                continue;
            }
            let mut parts: Vec<Vec<usize>> = vec![vec![n]];
            if n >= 2 {
                parts.push(vec![1, n - 1]);
                parts.push(vec![n - 1, 1]);
                parts.push(vec![n / 2, n - n / 2]);
            }
            for p in parts {
                for (hdr, marker) in [(true, false), (true, true), (false, false), (false, true)] {
                    ecases.push((n, e, p.clone(), hdr, marker));
                }
            }
        }
    }
    rep.extra("expected_size_cases", json!(ecases.len()));
    par_for_with(
        ecases.len(),
        0,
        |_| (0u64, Vec::<u64>::new()),
        |st, i| {
            let (n, e, parts, hdr, marker) = &ecases[i];
            let desc = || {
                format!(
                    "C18|lzma-expected|n{}|e{}|{}{}",
                    n,
                    e,
                    parts.iter().map(|p| p.to_string()).collect::<Vec<_>>().join("+"),
                    match (hdr, marker) {
                        (true, false) => "",
                        (true, true) => "|hdr+marker",
                        (false, false) => "|raw",
                        (false, true) => "|raw+marker",
                    }
                )
            };
            if !cli.selected_with(desc) {
                return;
            }
            st.0 += 1;
            let input = gen::build(&[Seg::C(*n)], 4);
            let mk = |kind: &str, site: &str, detail: String| rep.violation(Violation::new(kind, site, desc()).attr("family", "lzma").attr("writes", "-").detail(detail));
            let r = catch(|| {
                let mut w = LZMAWriter::new(Vec::new(), &o.lzma(), *hdr, *marker, Some(*e as u64))?;
                let mut off = 0;
                let mut write_err = None;
                for p in parts {
                    if *p == 0 {
                        continue;
                    }
                    if let Err(er) = w.write_all(&input[off..off + p]) {
                        write_err = Some((off + p, er.to_string()));
                        break;
                    }
                    off += p;
                }
                let fin = if write_err.is_none() { Some(w.finish().map_err(|e| e.to_string())) } else { None };
                Ok::<_, std::io::Error>((write_err, fin))
            });
            match r {
                Err(p) => mk("panic", &p.site(), p.msg),
                Ok(Err(er)) => mk("constructor-error", "expected size rejected by the constructor", er.to_string()),
                Ok(Ok((write_err, fin))) => {
                    let e = *e as usize;
                    if *n > e {
                        // some write must have failed: the first one that would exceed E
                        match write_err {
                            Some(_) => st.1.push(hash_desc(&desc())),
                            None => mk("no-error", "write beyond the expected size was accepted", format!("expected {e}, wrote {n}, finish = {fin:?}")),
                        }
                    } else if *n < e {
                        match (write_err, fin) {
                            (None, Some(Err(_))) => st.1.push(hash_desc(&desc())),
                            (we, f) => mk("no-error", "finish short of the expected size succeeded (or a write failed)", format!("write_err={we:?} finish={:?}", f.map(|r| r.map(|v| v.len())))),
                        }
                    } else {
                        match (write_err, fin) {
                            (None, Some(Ok(bytes))) => {
                                let declared = if *hdr { u64::from_le_bytes(bytes[5..13].try_into().unwrap()) } else { *n as u64 };
                                if declared != *n as u64 {
                                    mk("header-size", "header does not carry the number of bytes written", format!("header says {declared}, wrote {n}"));
                                } else {
                                    let cont = if *hdr { Container::LzmaHdrSize } else { Container::LzmaRawSize };
                                    match codec::decode(&cont, &o, &bytes, *n) {
                                        Ok(d) if d == input => st.1.push(hash_desc(&desc())),
                                        other => mk("undecodable", "stream with declared size does not decode to the input", format!("{:?}", other.map(|d| d.len()).map_err(|e| e.to_string()))),
                                    }
                                }
                            }
                            (we, f) => mk("spurious-error", "writing exactly the expected size failed", format!("write_err={we:?} finish={:?}", f.map(|r| r.map(|v| v.len())))),
                        }
                    }
                }
            }
        },
        |st| {
            rep.add("evaluations", st.0);
            rep.nontrivial_many(&st.1);
        },
    );
    rep.sample(json!({"xz": "block_size 1 (raised to dict 4096)", "input": 8193, "history": "one write", "expect": "blocks 4096,4096,1"}));
    rep.sample(json!({"lzma": "expected 300, writes 299+1 then finish", "expect": "header bytes 5..13 = 300"}));
}
