//! C03 — interoperability with the reference implementation (liblzma) in both directions.

use crate::c02::{chains, pieces};
use crate::codec::{self, Bcj, Container, Filt, Op, Opts, ALL_BCJ};
use crate::common::*;
use crate::refimpl;
use mc_core::gen::{self, Seg};
use mc_core::report::brief;
use mc_core::run::{catch, par_for_with, Cli};
use mc_core::{Report, Violation};
use serde_json::json;

#[derive(Clone)]
enum Dir {
    /// ours -> liblzma
    Out { cont: Container, ops: Vec<Op> },
    /// liblzma -> ours; `how` selects the reference encoder
    In { how: RefEnc },
}

#[derive(Clone, Debug)]
enum RefEnc {
    XzPreset { preset: u32, check: u8 },
    Xz { check: u8, pre: Vec<Filt> },
    XzBlocks { preset: u32, check: u8, block: u64 },
    Alone,
    RawLzma2 { pre: Vec<Filt> },
}

#[derive(Clone)]
struct Case {
    dir: Dir,
    opts: Opts,
    input: Input,
}

impl Case {
    fn desc(&self) -> String {
        match &self.dir {
            Dir::Out { cont, ops } => format!(
                "C03|out|{}|{}|ops{}|{}",
                cont.desc(),
                self.opts.desc(),
                ops.len(),
                self.input.desc()
            ),
            Dir::In { how } => format!("C03|in|{:?}|{}|{}", how, self.opts.desc(), self.input.desc()),
        }
    }
}

fn files() -> Vec<(String, Vec<u8>)> {
    let mut v = vec![];
    for n in ["wget-x86", "wget-arm", "wget-arm-thumb", "wget-arm64", "wget-ppc", "wget-sparc", "wget-ia64", "wget-riscv"] {
        if let Ok(b) = std::fs::read(format!("{}/tests/data/{n}", gen::repo_dir())) {
            v.push((n.to_string(), b));
        }
    }
    v
}

fn bcj_for(name: &str) -> Bcj {
    match name {
        "wget-x86" => Bcj::X86,
        "wget-arm" => Bcj::Arm,
        "wget-arm-thumb" => Bcj::ArmThumb,
        "wget-arm64" => Bcj::Arm64,
        "wget-ppc" => Bcj::Ppc,
        "wget-sparc" => Bcj::Sparc,
        "wget-ia64" => Bcj::Ia64,
        _ => Bcj::RiscV,
    }
}

pub fn run(cli: &Cli, rep: &Report) {
    let thorough = cli.thorough();
    rep.rule(
        "E-enum, differential against liblzma 5.x (bundled C source): ours->ref: every stream written for MICRO(A3,4) u SHAPES under a reduced option grid, \
         all container variants, check types, block/member sizes and filter chains must be decoded by liblzma's alone/raw/stream/lzip decoders to the input; \
         ref->ours: liblzma presets, custom option vectors, checks, filter chains (with start offsets), multi-block and .lzma/raw LZMA2 outputs must be decoded \
         by this crate to the input; non-trivial = non-empty input, both sides ran",
    );
    rep.assumption("no lzip *encoder* exists in the sandbox (liblzma only decodes .lz), so reference-made .lz files are not covered");
    rep.assumption("reference = the liblzma crate 0.4.8 with its bundled static liblzma from the cargo cache");
    let mut cases: Vec<Case> = vec![];
    let micro_l = 4;
    let mut inputs: Vec<Input> = (0..gen::micro_count(3, micro_l)).map(|i| Input::Bytes(gen::micro_nth(&A3, i))).collect();
    let shapes: Vec<Vec<Seg>> = vec![
        vec![Seg::C(9000)],
        vec![Seg::X(9000)],
        vec![Seg::R(5000), Seg::C(5000)],
        vec![Seg::Z(70000)],
        vec![Seg::R(70000)],
        vec![Seg::C(30000), Seg::D(20000, 20000), Seg::X(30000)],
        vec![Seg::X(300_000)],
        vec![Seg::Z((2 << 20) + 1)],
        // LZMA2 state resets in mid-stream: compressible data (rep distances, probabilities and the state machine leave
        // their initial values), uncompressed chunks, then data that is coded with rep matches / short-period matches
        // straight after the reset; both sides must restart from the same initial coder state
        vec![Seg::C(5000), Seg::R(140_000), Seg::P(3, 5000)],
        vec![Seg::P(5, 3000), Seg::R(140_000), Seg::P(5, 3000), Seg::C(3000)],
        vec![Seg::Z(1000), Seg::R(140_000), Seg::Z(3000)],
        vec![Seg::C(5000), Seg::R(140_000), Seg::C(5000)],
        vec![Seg::X(20_000), Seg::R(70_000), Seg::X(20_000), Seg::R(70_000), Seg::D(1, 4000)],
    ];
    let n_micro = inputs.len();
    inputs.extend(shapes.iter().cloned().map(Input::Shape));

    // ---- ours -> liblzma
    let out_opts: Vec<Opts> = {
        let mut v = subgrid(&[4096, 65536]);
        v.push(Opts { dict: 5000, ..Opts::small() });
        v.push(Opts { dict: 1 << 20, fast: false, bt4: true, nice: 64, ..Opts::small() });
        v
    };
    let chains = chains();
    for (ii, input) in inputs.iter().enumerate() {
        let is_shape = ii >= n_micro;
        let total = if let Input::Shape(s) = input { s.iter().map(|g| g.len()).sum() } else { 0usize };
        for o in &out_opts {
            if is_shape && !(o.nice == 8 || o.dict == 5000 || o.dict == 1 << 20) {
                continue; // shapes with a third of the option vectors
            }
            let mut conts: Vec<(Container, Vec<Op>)> = vec![
                (Container::LzmaHdrMarker, vec![]),
                (Container::LzmaHdrSize, vec![]),
                (Container::LzmaRawMarker, vec![]),
                (Container::Lzma2, vec![]),
                (Container::Lzma2Chunk(1), if is_shape { pieces(total, 4096) } else { vec![] }),
                (Container::Lzip { member: None }, vec![]),
                (Container::Lzip { member: Some(1) }, vec![]),
            ];
            for check in [0u8, 1, 4, 10] {
                conts.push((Container::Xz { check, block: None, filters: vec![] }, vec![]));
            }
            conts.push((Container::Xz { check: 1, block: Some(1), filters: vec![] }, if is_shape { pieces(total, 4096) } else { vec![] }));
            if o.nice == 8 && o.fast && !o.bt4 && o.lc == 3 {
                for ch in chains.iter().skip(1) {
                    conts.push((Container::Xz { check: 4, block: None, filters: ch.clone() }, vec![]));
                }
            }
            for (c, ops) in conts {
                if c.accepts(o) {
                    cases.push(Case { dir: Dir::Out { cont: c, ops }, opts: *o, input: input.clone() });
                }
            }
        }
    }
    let n_out = cases.len();

    // ---- liblzma -> ours
    let presets: Vec<u32> = if thorough { (0..=9).chain((0..=9).map(|p| p | (1 << 31))).collect() } else { vec![0, 3, 6, 9 | (1 << 31)] };
    let in_opts: Vec<Opts> = {
        let mut v = minigrid(&[4096, 65536]);
        v.push(Opts { dict: 1 << 20, lc: 1, lp: 2, pb: 3, fast: false, bt4: true, nice: 128, depth: 0 });
        v.push(Opts { dict: 8 << 20, ..Opts::small() });
        v
    };
    for (ii, input) in inputs.iter().enumerate() {
        let is_shape = ii >= n_micro;
        for &p in &presets {
            if !is_shape && (p & 0xF) > 3 {
                continue; // big-dictionary presets only on the shapes (cost), small ones on everything
            }
            for check in [1u8, 4] {
                cases.push(Case { dir: Dir::In { how: RefEnc::XzPreset { preset: p, check } }, opts: Opts::small(), input: input.clone() });
            }
        }
        for o in &in_opts {
            if !is_shape && o.dict > 65536 {
                continue;
            }
            cases.push(Case { dir: Dir::In { how: RefEnc::Alone }, opts: *o, input: input.clone() });
            if o.lc + o.lp <= 4 {
                cases.push(Case { dir: Dir::In { how: RefEnc::RawLzma2 { pre: vec![] } }, opts: *o, input: input.clone() });
                for check in [0u8, 1, 4, 10] {
                    cases.push(Case { dir: Dir::In { how: RefEnc::Xz { check, pre: vec![] } }, opts: *o, input: input.clone() });
                }
            }
        }
        // filter chains with the plain option vector
        let o = Opts::small();
        for ch in chains.iter().skip(1) {
            cases.push(Case { dir: Dir::In { how: RefEnc::Xz { check: 4, pre: ch.clone() } }, opts: o, input: input.clone() });
        }
        for b in ALL_BCJ {
            let start = 4096 * 16;
            cases.push(Case { dir: Dir::In { how: RefEnc::Xz { check: 1, pre: vec![Filt::Bcj(b, start)] } }, opts: o, input: input.clone() });
            if is_shape || ii % 7 == 0 {
                // the smallest start offsets each filter's alignment allows (1x, 3x the alignment) and the largest, in
                // both directions: what one side writes into / accepts from the block header must suit the other
                let a = b.alignment();
                for start in [a, 3 * a, 0u32.wrapping_sub(a)] {
                    cases.push(Case { dir: Dir::In { how: RefEnc::Xz { check: 1, pre: vec![Filt::Bcj(b, start)] } }, opts: o, input: input.clone() });
                    cases.push(Case { dir: Dir::Out { cont: Container::Xz { check: 1, block: None, filters: vec![Filt::Bcj(b, start)] }, ops: vec![] }, opts: o, input: input.clone() });
                }
            }
            cases.push(Case { dir: Dir::In { how: RefEnc::RawLzma2 { pre: vec![Filt::Bcj(b, 0)] } }, opts: o, input: input.clone() });
        }
        if is_shape {
            cases.push(Case { dir: Dir::In { how: RefEnc::XzBlocks { preset: 1, check: 4, block: 4096 } }, opts: o, input: input.clone() });
            cases.push(Case { dir: Dir::In { how: RefEnc::XzBlocks { preset: 6, check: 10, block: 65536 } }, opts: o, input: input.clone() });
        }
    }
    // dictionary sizes the one-byte LZIP header field / the XZ LZMA2 property cannot represent exactly, with matches at
    // (nearly) the full distance: the header must announce at least what the encoder used, or the reference rejects it
    for dict in [4800u32, 5000, 70_000, 100_000] {
        let d = dict as usize;
        let o = Opts { dict, ..Opts::small() };
        for back in [1usize, 10, 100] {
            let input = Input::Shape(vec![Seg::R(d - back), Seg::D(d - back, 300), Seg::C(50), Seg::D(d - back, 40)]);
            cases.push(Case { dir: Dir::Out { cont: Container::Lzip { member: None }, ops: vec![] }, opts: o, input: input.clone() });
            cases.push(Case { dir: Dir::Out { cont: Container::Xz { check: 1, block: None, filters: vec![] }, ops: vec![] }, opts: o, input: input.clone() });
            cases.push(Case { dir: Dir::Out { cont: Container::LzmaHdrMarker, ops: vec![] }, opts: o, input });
        }
    }
    // the real executables with their own BCJ filter
    let fl = files();
    for (name, bytes) in &fl {
        let take = if thorough { bytes.len() } else { bytes.len().min(150_000) };
        let input = Input::Bytes(bytes[..take].to_vec());
        let b = bcj_for(name);
        let o = Opts { dict: 1 << 20, ..Opts::small() };
        cases.push(Case { dir: Dir::In { how: RefEnc::Xz { check: 4, pre: vec![Filt::Bcj(b, 0)] } }, opts: o, input: input.clone() });
        cases.push(Case { dir: Dir::In { how: RefEnc::XzPreset { preset: if thorough { 6 } else { 1 }, check: 4 } }, opts: o, input: input.clone() });
        cases.push(Case { dir: Dir::Out { cont: Container::Xz { check: 4, block: None, filters: vec![Filt::Bcj(b, 0)] }, ops: vec![] }, opts: o, input: input.clone() });
        cases.push(Case { dir: Dir::Out { cont: Container::Lzip { member: None }, ops: vec![] }, opts: o, input });
    }
    // the liblzma-made fixtures shipped with the repository
    let mut fixture_cases = 0u64;
    for (name, orig) in &fl {
        if let Ok(xz) = std::fs::read(format!("{}/tests/data/{name}.xz", gen::repo_dir())) {
            fixture_cases += 1;
            if cli.selected(&format!("C03|fixture|{name}")) {
                rep.add("evaluations", 1);
                let r = catch(|| {
                    let mut rd = lzma_rust2::XZReader::new(xz.as_slice(), true);
                    codec::read_all(&mut rd, 1 << 16, orig.len() * 2 + 1024)
                });
                let bad = match r {
                    Ok(Ok(out)) if &out == orig => None,
                    Ok(Ok(out)) => Some(("wrong-bytes".to_string(), "fixture decodes to different bytes".to_string(), format!("len {} vs {}", out.len(), orig.len()))),
                    Ok(Err(e)) => Some(("rejected-reference-stream".to_string(), format!("{:?}: {}", e.kind(), mc_core::run::normalise(&e.to_string())), e.to_string())),
                    Err(p) => Some(("panic".to_string(), p.site(), p.msg)),
                };
                if let Some((k, s, d)) = bad {
                    rep.violation(Violation::new(&k, s, format!("C03|fixture|{name}")).attr("dir", "in").attr("via", "fixture").detail(d));
                } else {
                    rep.nontrivial(hash_desc(&format!("C03|fixture|{name}")));
                }
            }
        }
    }
    // concatenated streams with differing check types and stream padding, both directions: every ordered pair of checks
    // x padding {0, 4, 8} between and after the streams, plus three streams with an empty one in the middle
    let mut concat_cases = 0u64;
    {
        let a = gen::build(&[gen::Seg::C(700)], cli.seed);
        let b = gen::build(&[gen::Seg::X(900)], cli.seed);
        let o = Opts::small();
        let checks = [0u8, 1, 4, 10];
        let mut plans: Vec<(Vec<(u8, usize)>, usize)> = vec![]; // ((check, which input: 0=a 1=b 2=empty) per stream, padding)
        for c1 in checks {
            for c2 in checks {
                for pad in [0usize, 4, 8] {
                    plans.push((vec![(c1, 0), (c2, 1)], pad));
                }
                plans.push((vec![(c1, 0), (c2, 2), (c1, 1)], 4));
                plans.push((vec![(c1, 2), (c2, 0)], 0));
            }
        }
        for (streams, pad) in plans {
            for dir_in in [true, false] {
                let desc = format!("C03|concat|{}|{}|pad{pad}", if dir_in { "in" } else { "out" }, streams.iter().map(|(c, w)| format!("c{c}:{}", ["a", "b", "empty"][*w])).collect::<Vec<_>>().join("+"));
                concat_cases += 1;
                if !cli.selected(&desc) {
                    continue;
                }
                rep.add("evaluations", 1);
                let mut file = vec![];
                let mut content = vec![];
                let mut refused = false;
                for (c, w) in &streams {
                    let data: &[u8] = match w { 0 => &a, 1 => &b, _ => &[] };
                    let part = if dir_in {
                        refimpl::xz_encode(data, &o, *c, &[])
                    } else {
                        codec::encode(&Container::Xz { check: *c, block: None, filters: vec![] }, &o, data, &[]).map_err(|e| e.to_string())
                    };
                    match part {
                        Ok(p) => file.extend_from_slice(&p),
                        Err(_) => refused = true,
                    }
                    file.extend(std::iter::repeat(0u8).take(pad));
                    content.extend_from_slice(data);
                }
                if refused {
                    rep.add("reference_refused", 1);
                    continue;
                }
                let got: Result<Vec<u8>, String> = if dir_in {
                    match catch(|| {
                        let mut rd = lzma_rust2::XZReader::new(file.as_slice(), true);
                        codec::read_all(&mut rd, 1 << 16, content.len() * 2 + 1024)
                    }) {
                        Ok(Ok(v)) => Ok(v),
                        Ok(Err(e)) => Err(format!("{:?}: {}", e.kind(), mc_core::run::normalise(&e.to_string()))),
                        Err(p) => Err(format!("panic {}", p.site())),
                    }
                } else {
                    refimpl::xz_decode(&file, content.len() * 2 + 1024)
                };
                let dirs = if dir_in { "in" } else { "out" };
                match got {
                    Ok(v) if v == content => rep.nontrivial(hash_desc(&desc)),
                    Ok(v) => rep.violation(Violation::new("wrong-bytes", "concatenated streams decode to different bytes", desc.clone()).attr("dir", dirs).attr("via", "concat").detail(format!("len {} vs {}", v.len(), content.len()))),
                    Err(e) => rep.violation(
                        Violation::new(if dir_in { "rejected-reference-stream" } else { "reference-rejects" }, format!("concatenated streams: {e}"), desc.clone()).attr("dir", dirs).attr("via", "concat").detail(brief(&file)),
                    ),
                }
            }
        }
    }
    rep.extra("concat_cases", json!(concat_cases));
    rep.extra("cases", json!({"ours_to_ref": n_out, "ref_to_ours": cases.len() - n_out, "fixtures": fixture_cases, "micro_len": micro_l, "shapes": shapes.len(), "presets": presets.len(), "executables": fl.len()}));

    let n = cases.len();
    par_for_with(
        n,
        0,
        |_| (0u64, Vec::<u64>::new()),
        |st, i| {
            let case = &cases[i];
            if !cli.selected_with(|| case.desc()) {
                return;
            }
            st.0 += 1;
            let input = case.input.build(cli.seed);
            let ok = match &case.dir {
                Dir::Out { cont, ops } => ours_to_ref(rep, case, cont, ops, &input),
                Dir::In { how } => ref_to_ours(rep, case, how, &input),
            };
            if ok && !input.is_empty() {
                st.1.push(hash_desc(&case.desc()));
            }
            if i % (n / 6 + 1) == 0 {
                rep.sample(json!({"case": case.desc()}));
            }
        },
        |st| {
            rep.add("evaluations", st.0);
            rep.nontrivial_many(&st.1);
            flush_cov(rep);
        },
    );
    if cli.only.is_none() {
        for dir in ["out", "in"] {
            if rep.get(&format!("mech.{dir}.state_reset_after_uncompressed")) == 0 {
                rep.machinery_error(format!("vacuous: no raw LZMA2 stream of direction '{dir}' contains a state-reset chunk after an uncompressed chunk"));
            }
        }
    }
}

/// Which LZMA2 chunk kinds occurred in the raw LZMA2 streams of one direction (mechanism coverage).
fn count_controls(rep: &Report, dir: &str, comp: &[u8]) {
    let Some((ctrls, _, _)) = walk_lzma2(comp) else { return };
    let mut prev_uncompressed = false;
    for (i, c) in ctrls.iter().enumerate() {
        let kind = match *c {
            1 => "uncompressed_dict_reset",
            2 => "uncompressed",
            0x80..=0x9F => "lzma_no_reset",
            0xA0..=0xBF => "lzma_state_reset",
            0xC0..=0xDF => "lzma_state_props_reset",
            _ => "lzma_full_reset",
        };
        rep.add(&format!("mech.{dir}.{kind}"), 1);
        if i > 0 && prev_uncompressed && (0xA0..=0xBF).contains(c) {
            rep.add(&format!("mech.{dir}.state_reset_after_uncompressed"), 1);
        }
        prev_uncompressed = *c <= 2;
    }
}

fn viol(rep: &Report, case: &Case, kind: &str, site: String, dir: &str, via: &str, detail: String) {
    rep.violation(
        Violation::new(kind, site, case.desc())
            .attr("dir", dir)
            .attr("via", via)
            .attr("empty", matches!(&case.input, Input::Bytes(b) if b.is_empty()).to_string())
            .detail(detail),
    );
}

fn ours_to_ref(rep: &Report, case: &Case, cont: &Container, ops: &[Op], input: &[u8]) -> bool {
    let via = cont.family();
    let comp = match catch(|| codec::encode(cont, &case.opts, input, ops)) {
        Ok(Ok(c)) => c,
        Ok(Err(e)) => {
            viol(rep, case, "encode-error", format!("{:?}: {}", e.kind(), mc_core::run::normalise(&e.to_string())), "out", via, e.to_string());
            return false;
        }
        Err(p) => {
            viol(rep, case, "panic", format!("encode: {}", p.site()), "out", via, p.msg);
            return false;
        }
    };
    let limit = input.len() * 2 + (1 << 16);
    let r: Result<Vec<u8>, String> = match cont {
        Container::LzmaHdrMarker | Container::LzmaHdrSize => refimpl::alone_decode(&comp, limit).and_then(|(o, used)| {
            if used == comp.len() { Ok(o) } else { Err(format!("ref consumed {used} of {}", comp.len())) }
        }),
        Container::LzmaRawMarker => refimpl::raw_lzma1_decode(&comp, &case.opts, limit).map(|x| x.0),
        Container::Lzma2 | Container::Lzma2Chunk(_) => refimpl::raw_lzma2_decode(&comp, case.opts.dict, &[], limit).and_then(|(o, used)| {
            if used == comp.len() { Ok(o) } else { Err(format!("ref consumed {used} of {}", comp.len())) }
        }),
        Container::Xz { .. } => refimpl::xz_decode(&comp, limit),
        Container::Lzip { .. } => refimpl::lzip_decode(&comp, limit),
        _ => return true,
    };
    if matches!(cont, Container::Lzma2 | Container::Lzma2Chunk(_)) {
        count_controls(rep, "out", &comp);
    }
    match r {
        Ok(out) if out == input => true,
        Ok(out) => {
            viol(rep, case, "wrong-bytes", "reference decodes our stream to different bytes".into(), "out", via, format!("in {} out {} comp {}", input.len(), out.len(), brief(&comp)));
            false
        }
        Err(e) => {
            viol(rep, case, "reference-rejects", mc_core::run::normalise(&e), "out", via, format!("liblzma: {e} | comp={}", brief(&comp)));
            false
        }
    }
}

fn ref_to_ours(rep: &Report, case: &Case, how: &RefEnc, input: &[u8]) -> bool {
    let o = &case.opts;
    let (comp, cont, via): (Result<Vec<u8>, String>, Container, &str) = match how {
        RefEnc::XzPreset { preset, check } => (refimpl::xz_encode_preset(input, *preset, *check), Container::Xz { check: *check, block: None, filters: vec![] }, "xz-preset"),
        RefEnc::Xz { check, pre } => (refimpl::xz_encode(input, o, *check, pre), Container::Xz { check: *check, block: None, filters: pre.clone() }, if pre.is_empty() { "xz" } else { "xz-filters" }),
        RefEnc::XzBlocks { preset, check, block } => (refimpl::xz_encode_blocks(input, *preset, *check, *block, 2), Container::Xz { check: *check, block: None, filters: vec![] }, "xz-blocks"),
        RefEnc::Alone => (refimpl::alone_encode(input, o), Container::LzmaHdrMarker, "alone"),
        RefEnc::RawLzma2 { pre } => (refimpl::raw_lzma2_encode(input, o, pre), Container::Lzma2, if pre.is_empty() { "raw-lzma2" } else { "raw-lzma2-filters" }),
    };
    let comp = match comp {
        Ok(c) => c,
        Err(e) => {
            // the reference refused this configuration: not a case (recorded, never silently dropped)
            rep.add("reference_refused", 1);
            rep.note(format!("reference encoder refused {:?} {}: {e}", how, o.desc()));
            return false;
        }
    };
    if matches!(how, RefEnc::RawLzma2 { pre } if pre.is_empty()) {
        count_controls(rep, "in", &comp);
    }
    let limit = input.len() * 2 + (1 << 16);
    let r = catch(|| match how {
        RefEnc::RawLzma2 { pre } if !pre.is_empty() => {
            // raw LZMA2 behind a BCJ filter: compose our readers by hand
            let Filt::Bcj(b, s) = pre[0] else { unreachable!() };
            let inner = lzma_rust2::LZMA2Reader::new(comp.as_slice(), o.dict, None);
            let mut rd = b.reader(inner, s as usize);
            codec::read_all(&mut rd, 1 << 16, limit)
        }
        _ => {
            let mut rd = codec::open_reader(&cont, o, comp.as_slice(), input.len(), true)?;
            codec::read_all(&mut rd, 1 << 16, limit)
        }
    });
    match r {
        Ok(Ok(out)) if out == input => true,
        Ok(Ok(out)) => {
            viol(rep, case, "wrong-bytes", "we decode the reference stream to different bytes".into(), "in", via, format!("in {} out {} comp {}", input.len(), out.len(), brief(&comp)));
            false
        }
        Ok(Err(e)) => {
            viol(rep, case, "rejected-reference-stream", format!("{:?}: {}", e.kind(), mc_core::run::normalise(&e.to_string())), "in", via, format!("{e} | comp={}", brief(&comp)));
            false
        }
        Err(p) => {
            viol(rep, case, "panic", format!("decode: {}", p.site()), "in", via, format!("{} | comp={}", p.msg, brief(&comp)));
            false
        }
    }
}
