//! C01 — LZMA / LZMA2 compress-then-decompress returns exactly the input (E-enum).

use crate::codec::{Container, Op, Opts};
use crate::common::*;
use lzma_rust2::verif::bias;
use mc_core::gen::{self, Seg};
use mc_core::run::{par_for_with, Cli};
use mc_core::Report;
use serde_json::json;

fn variants() -> Vec<Container> {
    vec![
        Container::LzmaHdrMarker,
        Container::LzmaHdrSize,
        Container::LzmaRawMarker,
        Container::LzmaRawSize,
        Container::LzmaRawPreset(300),
        Container::Lzma2,
        Container::Lzma2Chunk(1),
        Container::Lzma2Preset(1),
        Container::Lzma2Preset(300),
        Container::Lzma2Preset(70000),
    ]
}

#[derive(Clone)]
pub struct Case {
    pub cont: Container,
    pub opts: Opts,
    pub input: Input,
    pub ops: Vec<Op>,
    pub bias: i32,
}

impl Case {
    pub fn desc(&self) -> String {
        let ops = if self.ops.is_empty() {
            "-".to_string()
        } else {
            self.ops
                .iter()
                .map(|o| match o {
                    Op::Write(n) => format!("w{n}"),
                    Op::Empty => "e".into(),
                    Op::Flush => "f".into(),
                })
                .collect::<Vec<_>>()
                .join(".")
        };
        format!(
            "C01|{}|{}|bias{}|ops:{}|{}",
            self.cont.desc(),
            self.opts.desc(),
            self.bias,
            ops,
            self.input.desc()
        )
    }
}

fn run_case(rep: &Report, seed: u64, case: &Case) -> bool {
    let input = case.input.build(seed);
    let attrs = [
        ("family", case.cont.family().to_string()),
        ("container", case.cont.desc()),
        ("dict", dict_class(case.opts.dict).to_string()),
        ("input", case.input.class().to_string()),
        ("bias", (case.bias != 0).to_string()),
        ("ops", (!case.ops.is_empty()).to_string()),
    ];
    let (out, _comp) = round_trip(rep, &|| case.desc(), &attrs, &case.cont, &case.opts, &input, &case.ops, true);
    matches!(out, RtOutcome::Ok { .. }) && !input.is_empty()
}

/// Run a list of cases in parallel (all with the same bias, which is process-global).
fn run_phase(rep: &Report, cli: &Cli, name: &str, bias_v: i32, n: usize, make: &(dyn Fn(usize) -> Option<Case> + Sync)) {
    bias::set(bias_v);
    par_for_with(
        n,
        0,
        |_| (0u64, 0u64, Vec::<u64>::new()),
        |st, i| {
            let Some(case) = make(i) else { return };
            if !cli.selected_with(|| case.desc()) {
                return;
            }
            st.0 += 1;
            let scope_desc = || case.desc();
            let _scope = mc_core::run::case_scope(&scope_desc);
            if run_case(rep, cli.seed, &case) {
                st.1 += 1;
                st.2.push(hash_desc(&case.desc()));
            }
            if i == n / 2 && rep.n_samples() < 10 {
                rep.sample(json!({"phase": name, "case": case.desc()}));
            }
        },
        |st| {
            rep.add_many(&[("evaluations", st.0), (&format!("phase.{name}"), st.0)]);
            rep.nontrivial_many(&st.2);
            flush_cov(rep);
        },
    );
    bias::set(0);
}

pub fn run(cli: &Cli, rep: &Report) {
    let thorough = cli.thorough();
    rep.rule(
        "E-enum: every element of MICRO(A3,L) x GRID x V, MICRO(A3,L') x SUBGRID x V, SHAPES x MINIGRID x V, window-exactly-full shapes (-2..+2 bytes, 4 tails) x MINIGRID x 3 variants, every dictionary size in [4096, 4224] x echo data at distance dict_size and dict_size-1 x 3 encoder settings, \
         biased-start renormalisation cases and all LZMA2Writer operation sequences up to depth D; \
         a case is non-trivial when the input is non-empty and both encoder and decoder ran to completion \
         (distinct by hash of the case descriptor)",
    );
    rep.assumption("x86_64 only; inputs, options and operation sequences outside the enumerated domains are not covered");
    rep.assumption("match finder positions beyond 2^31 are reached through the cfg-gated start bias (lzma_rust2::verif::bias)");
    let vars = variants();
    let grid = grid();

    // Phase 1: MICRO(A3, L1) x GRID x V
    let l1 = if thorough { 4 } else { 3 };
    let n_str = gen::micro_count(3, l1);
    let n = n_str * grid.len() * vars.len();
    rep.extra("micro_grid", json!({"alphabet": "00,61,FF", "max_len": l1, "strings": n_str, "grid": grid.len(), "variants": vars.len()}));
    run_phase(rep, cli, "micro_grid", 0, n, &|i| {
        let v = i % vars.len();
        let g = (i / vars.len()) % grid.len();
        let s = i / (vars.len() * grid.len());
        let cont = &vars[v];
        let opts = grid[g];
        if !cont.accepts(&opts) {
            return None;
        }
        Some(Case { cont: cont.clone(), opts, input: Input::Bytes(gen::micro_nth(&A3, s)), ops: vec![], bias: 0 })
    });

    // Phase 2: MICRO(A3, L2) x SUBGRID x V
    let l2 = if thorough { 8 } else { 5 };
    let sub = subgrid(&[4096, 65536, 1 << 20]);
    let n_str2 = gen::micro_count(3, l2);
    let n2 = n_str2 * sub.len() * vars.len();
    rep.extra("micro_subgrid", json!({"max_len": l2, "strings": n_str2, "subgrid": sub.len()}));
    run_phase(rep, cli, "micro_subgrid", 0, n2, &|i| {
        let v = i % vars.len();
        let g = (i / vars.len()) % sub.len();
        let s = i / (vars.len() * sub.len());
        let cont = &vars[v];
        let opts = sub[g];
        if !cont.accepts(&opts) {
            return None;
        }
        Some(Case { cont: cont.clone(), opts, input: Input::Bytes(gen::micro_nth(&A3, s)), ops: vec![], bias: 0 })
    });

    // Phase 3: SHAPES x MINIGRID x V
    let shapes = shape_set(thorough);
    let mini = minigrid(if thorough { &[4096, 65536, 1 << 20] } else { &[4096, 65536] });
    let svars: Vec<Container> = vec![
        Container::LzmaHdrMarker,
        Container::LzmaRawSize,
        Container::Lzma2,
        Container::Lzma2Chunk(1),
        Container::Lzma2Preset(300),
    ];
    let n3 = shapes.len() * mini.len() * svars.len();
    rep.extra("shapes", json!({"shapes": shapes.len(), "minigrid": mini.len(), "variants": svars.len()}));
    run_phase(rep, cli, "shapes", 0, n3, &|i| {
        let v = i % svars.len();
        let g = (i / svars.len()) % mini.len();
        let s = i / (svars.len() * mini.len());
        if !svars[v].accepts(&mini[g]) {
            return None;
        }
        Some(Case { cont: svars[v].clone(), opts: mini[g], input: Input::Shape(shapes[s].clone()), ops: vec![], bias: 0 })
    });

    // Phase 3b: the encoder window exactly full (-2..=+2 bytes) when the stream is finished, with matches that run to the
    // last byte (the window size is observed from the allocator: largest byte buffer of a 3-byte encode)
    {
        let mut wcases: Vec<Case> = vec![];
        let mut sizes = vec![];
        for o in minigrid(&[4096, 65536]) {
            for cont in [Container::LzmaHdrMarker, Container::LzmaRawSize, Container::Lzma2] {
                if !cont.accepts(&o) {
                    continue;
                }
                mc_core::alloc::begin();
                let _ = mc_core::run::catch(|| crate::codec::encode(&cont, &o, &[1, 2, 3], &[]));
                let b = mc_core::alloc::biggest_bytes_request().max(8192);
                sizes.push(json!([cont.desc(), o.desc(), b]));
                let d = o.dict as usize;
                for delta in -2i64..=2 {
                    let total = (b as i64 + delta) as usize;
                    let mut tails = vec![vec![Seg::R(64), Seg::P(3, total - 64)], vec![Seg::Z(total)], vec![Seg::R(d), Seg::D(d, total - d)], vec![Seg::C(total - 300), Seg::D(7, 300)]];
                    // short rep matches and literals at every one of the last positions (echo at distance 7 and 1000 with the
                    // fresh literal at each phase): the encoder probes rep candidates within the last few bytes of the buffer
                    if delta >= -1 && delta <= 0 {
                        for phase in 0..16u64 {
                            tails.push(vec![Seg::C(total - 2000), Seg::E(if phase % 2 == 0 { 7 } else { 1000 }, 2000, 1000 + phase)]);
                        }
                    }
                    for sh in tails {
                        wcases.push(Case { cont: cont.clone(), opts: o, input: Input::Shape(sh), ops: vec![], bias: 0 });
                    }
                }
            }
        }
        // ... and the same place reached by a *flush*: the first write ends k bytes before the end of the window buffer (so the
        // next write moves the window), flush() leaves the match finder with pending positions (it needs nice_len bytes of
        // look-ahead), then more data arrives. Data with period ~ dict_size, so that the finder follows far candidates.
        for o in minigrid(&[4096, 65536]).into_iter().chain([Opts { dict: 65536, lc: 3, lp: 0, pb: 2, fast: true, bt4: true, nice: 273, depth: 0 }]) {
            let cont = Container::Lzma2;
            if !cont.accepts(&o) {
                continue;
            }
            mc_core::alloc::begin();
            let _ = mc_core::run::catch(|| crate::codec::encode(&cont, &o, &[1, 2, 3], &[]));
            let b = mc_core::alloc::biggest_bytes_request().max(8192);
            let d = o.dict as usize;
            for k in [0usize, 1, 100, 272, 273, 300, 481, 544, 545, 546, 600] {
                for period in [d, d - 36] {
                    let first = b - k;
                    let total = first + 100_000;
                    let sh = vec![Seg::R(period), Seg::D(period, total - period)];
                    wcases.push(Case { cont: cont.clone(), opts: o, input: Input::Shape(sh), ops: vec![Op::Write(first), Op::Flush], bias: 0 });
                }
            }
        }
        rep.extra("window_full", json!({"cases": wcases.len(), "window_sizes": sizes}));
        run_phase(rep, cli, "window_full", 0, wcases.len(), &|i| Some(wcases[i].clone()));
    }

    // Phase 3c: dictionary-size sweep. Window moves are aligned to 16 (the offset is rounded down), so whether the oldest
    // byte the dictionary still covers survives a move depends on the dictionary size modulo small powers of two:
    // every dictionary size in [4096, 4096 + 128] (thorough: + 256) x "echo" data whose rep matches lie at distance
    // dict_size and dict_size - 1 (a fresh literal at every position = phase (mod 16), phases 0..15), across many window moves
    {
        let mut dcases: Vec<Case> = vec![];
        let span = if thorough { 256 } else { 128 };
        for dict in 4096u32..=4096 + span {
            for (fast, bt4, nice) in [(true, false, 32u32), (true, true, 273), (false, true, 64)] {
                if !fast && dict % 4 != 0 && !thorough {
                    continue; // the optimising encoder (slower) on every fourth size in the quick tier
                }
                let o = Opts { dict, lc: 3, lp: 0, pb: 2, fast, bt4, nice, depth: 0 };
                for back in [0usize, 1] {
                    // the fresh literal at every position = phase (mod 16): all 16 phases for the plain fast encoder, four
                    // for the other two settings
                    for phase in 0..16u64 {
                        if !(fast && !bt4) && phase % 4 != 0 {
                            continue;
                        }
                        let d = dict as usize - back;
                        let sh = vec![Seg::E(d, 300_000, 1000 + phase)];
                        dcases.push(Case { cont: Container::LzmaRawMarker, opts: o, input: Input::Shape(sh.clone()), ops: vec![], bias: 0 });
                        if phase == 0 {
                            dcases.push(Case { cont: Container::Lzma2, opts: o, input: Input::Shape(sh), ops: vec![], bias: 0 });
                        }
                    }
                }
            }
        }
        rep.extra("dict_sweep", json!({"cases": dcases.len(), "dictionary_sizes": span + 1}));
        run_phase(rep, cli, "dict_sweep", 0, dcases.len(), &|i| Some(dcases[i].clone()));
    }

    // Phase 3d: long carry runs at the LZMA2 chunk limit. A range coder byte string that ends in a run of FF bytes is a
    // pending carry of that length; inputs whose encoding contains such a run where the compressed chunk limit (64 KiB - 26)
    // falls are obtained by *decoding* a crafted byte string: the first K payload bytes of a literal-heavy chunk, then 80
    // FF bytes, then noise, through the raw LZMA decoder. Re-encoding what comes out reproduces the run.
    {
        let mut ccases: Vec<Case> = vec![];
        let o = Opts { dict: 1 << 20, lc: 3, lp: 0, pb: 2, fast: true, bt4: false, nice: 128, depth: 8 };
        // Whether re-encoding reproduces the run depends on the symbols the FF bytes decode to, which is different for
        // every base stream: many base streams (seeds) are tried, the mechanism counter below says how many of the derived
        // inputs made the encoder reproduce the crafted stream up to the run.
        let n_seeds: u64 = if thorough { 96 } else { 48 };
        let mut with_run = 0u64;
        for seed in 0..n_seeds {
            let mut s = seed.wrapping_mul(0x9E37_79B9_7F4A_7C15) | 1;
            let mut next = move || {
                s ^= s << 13;
                s ^= s >> 7;
                s ^= s << 17;
                s
            };
            let base: Vec<u8> = (0..80_000).map(|_| (next() >> 32) as u8 & 0x7F).collect();
            let Ok(Ok(c)) = mc_core::run::catch(|| crate::codec::encode(&Container::Lzma2, &o, &base, &[])) else { continue };
            if c.len() < 70_000 || c[0] < 0xE0 {
                continue;
            }
            let csize = (((c[3] as usize) << 8) | c[4] as usize) + 1;
            let payload = &c[6..6 + csize];
            let k = 65_500usize;
            if k > payload.len() {
                continue;
            }
            let mut stream = payload[..k].to_vec();
            stream.extend(std::iter::repeat(0xFF).take(80));
            stream.extend((0..64).map(|_| (next() >> 32) as u8));
            let derived = mc_core::run::catch(|| {
                let mut out = vec![];
                if let Ok(mut rd) = lzma_rust2::LZMAReader::new(stream.as_slice(), u64::MAX, o.lc, o.lp, o.pb, o.dict, None) {
                    let mut b = [0u8; 1];
                    while let Ok(1) = std::io::Read::read(&mut rd, &mut b) {
                        out.push(b[0]);
                        if out.len() > 200_000 {
                            break;
                        }
                    }
                }
                out
            })
            .unwrap_or_default();
            if derived.len() < 60_000 {
                continue;
            }
            // did the encoder reproduce the crafted stream? (its first chunk then begins with the same 65 480 payload bytes,
            // and the run of FF bytes that follows them in the crafted stream is the carry it has to hold at the chunk limit)
            if let Ok(Ok(c2)) = mc_core::run::catch(|| crate::codec::encode(&Container::Lzma2, &o, &derived, &[])) {
                if c2.len() > 6 + 65_480 && c2[6..6 + 65_480] == payload[..65_480] {
                    with_run += 1;
                }
            }
            let input = Input::Named(format!("carry-run-seed{seed}-k{k}"), std::sync::Arc::new(derived));
            for cont in [Container::Lzma2, Container::Lzma2Chunk(1)] {
                ccases.push(Case { cont, opts: o, input: input.clone(), ops: vec![], bias: 0 });
            }
        }
        rep.add("mech.carry_run_inputs_reproduced", with_run);
        if with_run == 0 && cli.only.is_none() {
            rep.machinery_error("vacuous: no derived input made the encoder hold a long carry");
        }
        rep.extra("carry_runs", json!({"cases": ccases.len()}));
        if ccases.is_empty() && cli.only.is_none() {
            rep.machinery_error("vacuous: no carry-run input could be derived");
        }
        run_phase(rep, cli, "carry_runs", 0, ccases.len(), &|i| Some(ccases[i].clone()));
    }

    // Phase 3e: the uncompressed fallback of the optimising encoder. When a chunk does not pay off, what is stored
    // uncompressed is what was encoded *plus the parser's read-ahead*, which can make it longer than the 64 KiB one
    // uncompressed chunk holds: l incompressible bytes (l swept across the region where the compressed limit is hit),
    // then ~1 KiB of near-copies of early data (a long pending optimum path), then 4000 bytes copied from the start
    // (distance > 64 KiB, so the first 64 KiB must still be in the decoder's dictionary).
    {
        let mut ucases: Vec<Case> = vec![];
        let step = if thorough { 2 } else { 8 };
        for l in (64_400usize..=65_560).step_by(step) {
            for phase in [0u64, 5] {
                let sh = vec![Seg::R(l), Seg::E(l - 1000, 960, 1000 + phase), Seg::D(l + 960 - 100, 4000)];
                for o in [
                    Opts { dict: 1 << 20, lc: 3, lp: 0, pb: 2, fast: false, bt4: true, nice: 273, depth: 0 },
                    Opts { dict: 1 << 17, lc: 3, lp: 0, pb: 2, fast: false, bt4: false, nice: 64, depth: 0 },
                ] {
                    ucases.push(Case { cont: Container::Lzma2, opts: o, input: Input::Shape(sh.clone()), ops: vec![], bias: 0 });
                }
            }
        }
        rep.extra("uncompressed_fallback_sweep", json!({"cases": ucases.len()}));
        run_phase(rep, cli, "uncompressed_fallback_sweep", 0, ucases.len(), &|i| Some(ucases[i].clone()));
    }

    // Phase 4: renormalisation through a biased start position
    let bias_inputs: Vec<Input> = {
        let mut v: Vec<Input> = vec![];
        for s in [
            vec![Seg::C(9000)],
            vec![Seg::C(3000), Seg::R(3000), Seg::D(2500, 3000)],
            vec![Seg::X(12000)],
            vec![Seg::P(3, 5000), Seg::C(4000)],
            vec![Seg::C(80000)],
        ] {
            v.push(Input::Shape(s));
        }
        let l = if thorough { 5 } else { 3 };
        for i in 0..gen::micro_count(3, l) {
            v.push(Input::Bytes(gen::micro_nth(&A3, i)));
        }
        v
    };
    let bvars = vec![Container::LzmaHdrMarker, Container::Lzma2, Container::Lzma2Preset(300)];
    let bopts = minigrid(&[4096, 65536]);
    for &back in &[1i32, 5000, 70000] {
        let b = 0x7FFF_FFFF - back;
        let n4 = bias_inputs.len() * bopts.len() * bvars.len();
        run_phase(rep, cli, &format!("bias_minus_{back}"), b, n4, &|i| {
            let v = i % bvars.len();
            let g = (i / bvars.len()) % bopts.len();
            let s = i / (bvars.len() * bopts.len());
            if !bvars[v].accepts(&bopts[g]) {
                return None;
            }
            Some(Case { cont: bvars[v].clone(), opts: bopts[g], input: bias_inputs[s].clone(), ops: vec![], bias: b })
        });
    }

    // Phase 5: operation sequences on the LZMA2 writer
    let depth = if thorough { 5 } else { 4 };
    let seqs = op_sequences(depth, thorough);
    let ovars = vec![Container::Lzma2, Container::Lzma2Chunk(1), Container::Lzma2Preset(300)];
    let oopts = vec![
        Opts { dict: 4096, lc: 3, lp: 0, pb: 2, fast: true, bt4: false, nice: 32, depth: 0 },
        Opts { dict: 65536, lc: 3, lp: 0, pb: 2, fast: false, bt4: true, nice: 64, depth: 0 },
    ];
    let n5 = seqs.len() * ovars.len() * oopts.len();
    rep.extra("op_sequences", json!({"max_depth": depth, "sequences": seqs.len()}));
    run_phase(rep, cli, "op_sequences", 0, n5, &|i| {
        let v = i % ovars.len();
        let g = (i / ovars.len()) % oopts.len();
        let s = i / (ovars.len() * oopts.len());
        let (segs, ops) = &seqs[s];
        Some(Case { cont: ovars[v].clone(), opts: oopts[g], input: Input::Shape(segs.clone()), ops: ops.clone(), bias: 0 })
    });

    // Phase 6: short tails after a flush / after a preset dictionary. The match finders index a position only when enough
    // look-ahead is available (nice_len bytes for BT4, 4 when finishing), so what is left pending by flush() or by the preset
    // dictionary and is then caught up by finish() after only a few more bytes is a state of its own: EVERY tail length
    // 1..=300 (quick: 1..=40 and every 7th up to 300), three low-entropy tail kinds, all mode x finder x nice combinations.
    {
        let mut tcases: Vec<Case> = vec![];
        let ks: Vec<usize> = if thorough { (1..=300).collect() } else { (1..=300).filter(|k| *k <= 40 || k % 7 == 0 || (268..=276).contains(k)).collect() };
        let mut topts = vec![];
        for fast in [true, false] {
            for bt4 in [false, true] {
                for nice in [8u32, 32, 273] {
                    topts.push(Opts { dict: 4096, lc: 3, lp: 0, pb: 2, fast, bt4, nice, depth: 0 });
                }
            }
        }
        for cont in [Container::Lzma2, Container::Lzma2Preset(300), Container::LzmaRawPreset(300), Container::LzmaHdrMarker] {
            let preset = matches!(cont, Container::Lzma2Preset(_) | Container::LzmaRawPreset(_));
            let lzma2 = matches!(cont, Container::Lzma2 | Container::Lzma2Preset(_));
            for o in &topts {
                for &k in &ks {
                    for tail in [Seg::C(k), Seg::Z(k), Seg::D(37, k)] {
                        // the tail alone (meaningful with a preset dictionary: the text tail repeats the preset's content)
                        if preset {
                            tcases.push(Case { cont: cont.clone(), opts: *o, input: Input::Shape(vec![tail.clone()]), ops: vec![], bias: 0 });
                        }
                        if lzma2 {
                            for n0 in [60usize, 3000] {
                                tcases.push(Case { cont: cont.clone(), opts: *o, input: Input::Shape(vec![Seg::C(n0), tail.clone()]), ops: vec![Op::Write(n0), Op::Flush], bias: 0 });
                                if k % 5 == 1 {
                                    tcases.push(Case {
                                        cont: cont.clone(),
                                        opts: *o,
                                        input: Input::Shape(vec![Seg::C(n0), tail.clone(), Seg::D(k, 6)]),
                                        ops: vec![Op::Write(n0), Op::Flush, Op::Write(k), Op::Flush],
                                        bias: 0,
                                    });
                                }
                            }
                        } else if !preset {
                            // LZMA1 has no flush that ends a chunk; a split write must still be harmless
                            tcases.push(Case { cont: cont.clone(), opts: *o, input: Input::Shape(vec![Seg::C(60), tail.clone()]), ops: vec![Op::Write(60), Op::Flush], bias: 0 });
                        }
                    }
                }
            }
        }
        rep.extra("flush_tails", json!({"cases": tcases.len(), "tail_lengths": ks.len()}));
        run_phase(rep, cli, "flush_tails", 0, tcases.len(), &|i| Some(tcases[i].clone()));
    }

    // Non-vacuity: the mechanisms named in the property must have occurred in this run.
    if cli.only.is_none() {
        for (name, what) in [
            ("cov.window_move", "sliding window move"),
            ("cov.normalize_hc4", "HC4 position renormalisation"),
            ("cov.normalize_bt4", "BT4 position renormalisation"),
            ("cov.lzma2_chunk_lzma", "LZMA2 compressed chunk"),
            ("cov.lzma2_chunk_uncompressed", "LZMA2 uncompressed chunk"),
            ("cov.lzma2_independent_chunk", "LZMA2 independent chunk start"),
            ("cov.sym_match", "match symbol"),
            ("cov.sym_short_rep", "short rep symbol"),
            ("cov.sym_long_rep", "long rep symbol"),
            ("cov.decoder_pending_repeat", "decoder resumed a pending repeat"),
            ("cov.decoder_dict_wrap", "decoder copied across the dictionary wrap"),
        ] {
            if rep.get(name) == 0 {
                rep.machinery_error(format!("vacuous: {what} never occurred ({name} = 0)"));
            }
        }
    }
}

/// Shapes that force the codec's mechanisms inside the bound.
fn shape_set(thorough: bool) -> Vec<Vec<Seg>> {
    let mut v: Vec<Vec<Seg>> = vec![];
    // every 1- and 2-segment shape over the small boundary lengths
    let lens: &[usize] = if thorough { &[1, 2, 273, 274, 4095, 4096, 4097, 9000] } else { &[1, 273, 4097] };
    v.extend(gen::shapes(lens, 20_000, 2));
    // the 64 KiB compressed-chunk / uncompressed-fallback boundary
    for n in gen::BOUNDARY_LENS_MEDIUM {
        v.push(vec![Seg::R(n)]);
        v.push(vec![Seg::C(n)]);
        v.push(vec![Seg::Z(n)]);
        v.push(vec![Seg::C(1000), Seg::R(n)]);
        v.push(vec![Seg::R(n), Seg::C(5000)]);
        v.push(vec![Seg::R(n), Seg::D(60000, 5000)]);
    }
    v.push(vec![Seg::R(70000), Seg::C(3000), Seg::R(70000)]);
    v.push(vec![Seg::R(140_000)]);
    // window moves (dict 4096 buffers hold ~270 KiB)
    v.push(vec![Seg::C(300_000)]);
    v.push(vec![Seg::X(300_000)]);
    v.push(vec![Seg::C(280_000), Seg::R(10_000), Seg::D(4000, 9000)]);
    // matches at (and just below) the maximum distance at every position, across window moves: the only earlier
    // occurrence of every 4-byte group is exactly dict-k back, so the bytes kept before the read position after a
    // move are needed to their full extent (k = 0 is the maximum distance of the stream)
    for (d, total) in [(4096usize, 300_000usize), (65536, 450_000)] {
        for k in [0usize, 1, 15, 16, 17] {
            v.push(vec![Seg::R(d - k), Seg::D(d - k, total)]);
        }
    }
    // incompressible data across a window move (uncompressed chunks need history before the dictionary)
    v.push(vec![Seg::R(300_000)]);
    v.push(vec![Seg::C(270_000), Seg::R(70_000)]);
    v.push(vec![Seg::R(200_000), Seg::C(3000), Seg::R(130_000)]);
    // the 2 MiB uncompressed LZMA2 chunk limit
    for n in gen::BOUNDARY_LENS_LARGE {
        v.push(vec![Seg::Z(n)]);
    }
    v.push(vec![Seg::Z((2 << 20) - 273), Seg::R(100), Seg::Z(500)]);
    if thorough {
        v.push(vec![Seg::X(1_500_000)]);
        v.push(vec![Seg::C(700_000), Seg::R(200_000), Seg::D(650_000, 300_000)]);
        v.push(vec![Seg::Z(2 << 20), Seg::R(70_000), Seg::Z(2 << 20)]);
        v.push(vec![Seg::P(7, (2 << 20) + 5), Seg::C(100_000)]);
        v.push(vec![Seg::R(3 << 20)]);
        v.push(vec![Seg::C(4_500_000)]);
    }
    v
}

/// Every sequence of <= depth operations over the alphabet
/// {write 3 KiB compressible, write 70 KiB incompressible, write empty, flush, (thorough) write 2.2 MiB zeros}.
fn op_sequences(depth: usize, thorough: bool) -> Vec<(Vec<Seg>, Vec<Op>)> {
    #[derive(Clone, Copy)]
    enum A {
        C3k,
        R70k,
        Empty,
        Flush,
        Z2m,
    }
    let alpha: Vec<A> = if thorough { vec![A::C3k, A::R70k, A::Empty, A::Flush, A::Z2m] } else { vec![A::C3k, A::R70k, A::Empty, A::Flush] };
    let mut out = vec![];
    let mut level: Vec<Vec<A>> = vec![vec![]];
    for _ in 0..depth {
        let mut next = vec![];
        for s in &level {
            for a in &alpha {
                let mut t = s.clone();
                t.push(*a);
                next.push(t);
            }
        }
        for s in &next {
            // at most two of the big writes per sequence keeps the cost bounded
            if s.iter().filter(|a| matches!(a, A::Z2m)).count() > 2 {
                continue;
            }
            let mut segs = vec![];
            let mut ops = vec![];
            for a in s {
                match a {
                    A::C3k => {
                        segs.push(Seg::C(3000));
                        ops.push(Op::Write(3000));
                    }
                    A::R70k => {
                        segs.push(Seg::R(70000));
                        ops.push(Op::Write(70000));
                    }
                    A::Z2m => {
                        segs.push(Seg::Z(2_300_000));
                        ops.push(Op::Write(2_300_000));
                    }
                    A::Empty => ops.push(Op::Empty),
                    A::Flush => ops.push(Op::Flush),
                }
            }
            out.push((segs, ops));
        }
        level = next;
    }
    out
}
