//! C17 — memory estimators are sound and memory limits are enforced.

use crate::codec::{self, Container, Opts};
use crate::common::*;
use lzma_rust2::{lzma2_get_memory_usage, lzma_get_memory_usage, lzma_get_memory_usage_by_props, LZMA2Options, LZMA2Reader, LZMA2Writer, LZMAReader, LZMAWriter};
use mc_core::alloc;
use mc_core::gen::{self, Seg};
use mc_core::run::{catch, par_for_with, Cli};
use mc_core::{Report, Violation};
use serde_json::json;
use std::io::{Read, Write};

const SLACK: u64 = 1 << 20;
const FACTOR: u64 = 4;

struct NullSink;
impl Write for NullSink {
    fn write(&mut self, buf: &[u8]) -> std::io::Result<usize> {
        Ok(buf.len())
    }
    fn flush(&mut self) -> std::io::Result<()> {
        Ok(())
    }
}

fn judge(rep: &Report, desc: &dyn Fn() -> String, what: &str, class: &str, peak: u64, est_kib: u64, nontrivial: &mut Vec<u64>) {
    let est = est_kib * 1024;
    if peak > est {
        rep.violation(
            Violation::new("estimate-too-low", format!("{what}: real peak heap exceeds the estimator's figure"), desc())
                .attr("what", what)
                .attr("class", class)
                .detail(format!("peak {} bytes ({} KiB), estimate {} KiB, short by {} KiB", peak, peak / 1024, est_kib, (peak - est) / 1024)),
        );
    } else if est > FACTOR * peak + SLACK {
        rep.violation(
            Violation::new("estimate-too-high", format!("{what}: estimate is not within a small factor of the real peak"), desc())
                .attr("what", what)
                .attr("class", class)
                .detail(format!("peak {} KiB, estimate {} KiB ({}x)", peak / 1024, est_kib, est / peak.max(1))),
        );
    } else {
        nontrivial.push(hash_desc(&desc()));
    }
}

pub fn run(cli: &Cli, rep: &Report) {
    let thorough = cli.thorough();
    rep.rule(
        "E-enum with a counting global allocator (per-thread current/peak bytes): (1) LZMAOptions::get_memory_usage vs the peak of construct -> write 64 KiB -> finish for LZMAWriter (all 25 lc/lp pairs with lc<=8, lp<=4) \
         and LZMA2Writer (15 pairs with lc+lp<=4) x dict in {4 KiB,64 KiB,1 MiB,8 MiB(,64 MiB)} x mode x finder; (2) lzma_get_memory_usage(_by_props) for LZMAReader and lzma2_get_memory_usage for LZMA2Reader over the same \
         parameters while decoding a real stream; oracle: peak <= estimate*1024 and estimate*1024 <= 4*peak + 1 MiB; (1b) the encoder estimator at every dictionary size 2^k-1, 2^k, 2^k+1, 3*2^(k-1) up to 768 MiB x mode x match finder: never below the dictionary itself and never decreasing as the dictionary grows; real peaks also for 256 MiB, 512 MiB-16, 512 MiB and 768 MiB with one byte of input (tables allocated but untouched); (3) every .lzma header from props 0..=224 x dict set x declared size {unknown, 0, 1, 4096, dict, 2^32, 2^40+4096, 2^64-2} x limits {0, need-1, need, need+1, u32::MAX}: \
         new_mem_limit fails with OutOfMemory, having allocated < 4 KiB, whenever limit < need (a declared size below the dictionary size may instead succeed with a smaller dictionary), succeeds whenever limit >= need, \
         and a reader that was created never allocated more than its limit; non-trivial = a case whose estimate passed both bounds / a limit that was enforced",
    );
    rep.assumption("the constant 4 (+1 MiB) is this check's reading of 'small constant factor'; peak is measured per thread, each case runs on one thread");
    let input = gen::build(&[Seg::C(65536)], 1);

    // ---------------- (1) encoder estimator
    struct ECase {
        lzma2: bool,
        o: Opts,
    }
    let mut ecases = vec![];
    let dicts: Vec<u32> = if thorough { vec![4096, 65536, 1 << 20, 8 << 20, 64 << 20] } else { vec![4096, 65536, 1 << 20, 8 << 20] };
    for &dict in &dicts {
        for lc in 0..=8u32 {
            for lp in 0..=4u32 {
                if lc > 4 && lp > 0 && lc != 8 {
                    continue; // 25 pairs: all lc with lp = 0, all lp with lc <= 4, plus (8,4)
                }
                if lc == 8 && !(lp == 0 || lp == 4) {
                    continue;
                }
                for fast in [true, false] {
                    for bt4 in [false, true] {
                        let o = Opts { dict, lc, lp, pb: 2, fast, bt4, nice: 64, depth: 0 };
                        ecases.push(ECase { lzma2: false, o });
                        if lc + lp <= 4 {
                            ecases.push(ECase { lzma2: true, o });
                        }
                    }
                }
            }
        }
    }
    // the large end of the dictionary range (up to the encoder's maximum of 768 MiB): one byte is written, so the
    // multi-GiB tables are allocated (lazily zeroed, never touched) but cost address space only
    let n_small = ecases.len();
    for dict in [256u32 << 20, (512 << 20) - 16, 512 << 20, 768 << 20] {
        for fast in [true, false] {
            for bt4 in [false, true] {
                let o = Opts { dict, lc: 3, lp: 0, pb: 2, fast, bt4, nice: 64, depth: 0 };
                ecases.push(ECase { lzma2: false, o });
                ecases.push(ECase { lzma2: true, o });
            }
        }
    }
    rep.extra("encoder_cases", json!(ecases.len()));
    par_for_with(
        ecases.len(),
        1,
        |_| (0u64, Vec::<u64>::new()),
        |st, i| {
            let c = &ecases[i];
            let desc = || format!("C17|enc|{}|{}", if c.lzma2 { "lzma2" } else { "lzma" }, c.o.desc());
            if !cli.selected_with(desc) {
                return;
            }
            st.0 += 1;
            let lo = c.o.lzma();
            let est = lo.get_memory_usage() as u64;
            let r = catch(|| -> std::io::Result<u64> {
                let base = alloc::begin();
                let input: &[u8] = if i >= n_small { &input[..1] } else { &input };
                if c.lzma2 {
                    let mut w = LZMA2Writer::new(NullSink, LZMA2Options { lzma_options: lo.clone(), chunk_size: None });
                    w.write_all(input)?;
                    w.finish()?;
                } else {
                    let mut w = LZMAWriter::new_use_header(NullSink, &lo, None)?;
                    w.write_all(input)?;
                    w.finish()?;
                }
                Ok(alloc::peak_since(base) as u64)
            });
            match r {
                Ok(Ok(peak)) => judge(
                    rep,
                    &desc,
                    if c.lzma2 { "LZMAOptions::get_memory_usage (LZMA2Writer)" } else { "LZMAOptions::get_memory_usage (LZMAWriter)" },
                    if c.o.lc + c.o.lp > 4 { "lclp>4" } else { "lclp<=4" },
                    peak,
                    est,
                    &mut st.1,
                ),
                Ok(Err(e)) => rep.violation(Violation::new("error", format!("{:?}", e.kind()), desc()).attr("what", "writer").attr("class", "-").detail(e.to_string())),
                Err(p) => rep.violation(Violation::new("panic", p.site(), desc()).attr("what", "writer").attr("class", "-").detail(p.msg)),
            }
        },
        |st| {
            rep.add_many(&[("evaluations", st.0), ("encoder_estimates", st.0)]);
            rep.nontrivial_many(&st.1);
        },
    );

    // ---------------- (1b) the encoder estimator over the whole dictionary range (no allocation): it must not decrease when
    // the dictionary grows (a wrapped or truncated intermediate shows as a drop) and must cover at least the dictionary
    {
        let mut sizes: Vec<u32> = vec![];
        for lg in 12..=29u32 {
            for d in [(1u64 << lg) - 1, 1 << lg, (1 << lg) + 1, 3 << (lg - 1)] {
                if (4096..=(768u64 << 20)).contains(&d) {
                    sizes.push(d as u32);
                }
            }
        }
        sizes.push(768 << 20);
        sizes.sort_unstable();
        sizes.dedup();
        let mut n = 0u64;
        let mut nt = vec![];
        for fast in [true, false] {
            for bt4 in [false, true] {
                let mut prev: Option<(u32, u32)> = None;
                for &dict in &sizes {
                    let o = Opts { dict, lc: 3, lp: 0, pb: 2, fast, bt4, nice: 64, depth: 0 };
                    let desc = || format!("C17|enc-sweep|{}", o.desc());
                    // the predecessor's figure is needed for the comparison, so every size is evaluated even in a replay
                    let selected = cli.selected_with(desc);
                    let est = match catch(|| o.lzma().get_memory_usage()) {
                        Ok(e) => e,
                        Err(p) => {
                            if selected {
                                rep.violation(Violation::new("panic", p.site(), desc()).attr("what", "LZMAOptions::get_memory_usage").attr("class", "sweep").detail(p.msg));
                            }
                            continue;
                        }
                    };
                    if !selected {
                        prev = Some((dict, est));
                        continue;
                    }
                    n += 1;
                    let mut ok = true;
                    if (est as u64) < dict as u64 / 1024 {
                        ok = false;
                        rep.violation(
                            Violation::new("estimate-too-low", "LZMAOptions::get_memory_usage: the figure is smaller than the dictionary alone", desc())
                                .attr("what", "LZMAOptions::get_memory_usage")
                                .attr("class", "sweep")
                                .detail(format!("estimate {est} KiB, dictionary {} KiB", dict / 1024)),
                        );
                    }
                    if let Some((pd, pe)) = prev {
                        if est < pe {
                            ok = false;
                            rep.violation(
                                Violation::new("estimate-too-low", "LZMAOptions::get_memory_usage: the figure decreases when the dictionary grows", desc())
                                    .attr("what", "LZMAOptions::get_memory_usage")
                                    .attr("class", "sweep")
                                    .detail(format!("dictionary {pd}: {pe} KiB; dictionary {dict}: {est} KiB")),
                            );
                        }
                    }
                    prev = Some((dict, est));
                    if ok {
                        nt.push(hash_desc(&desc()));
                    }
                }
            }
        }
        rep.add_many(&[("evaluations", n), ("encoder_sweep", n)]);
        rep.nontrivial_many(&nt);
    }

    // ---------------- (2) decoder estimators
    struct DCase {
        lzma2: bool,
        o: Opts,
    }
    let mut dcases = vec![];
    for &dict in &dicts {
        for lc in 0..=8u32 {
            for lp in 0..=4u32 {
                for pb in [0u32, 4] {
                    let o = Opts { dict, lc, lp, pb, fast: true, bt4: false, nice: 32, depth: 0 };
                    dcases.push(DCase { lzma2: false, o });
                    if lc + lp <= 4 {
                        dcases.push(DCase { lzma2: true, o });
                    }
                }
            }
        }
    }
    rep.extra("decoder_cases", json!(dcases.len()));
    // the decoded input must be larger than the dictionary for the dictionary to be really used;
    // a 64 KiB input with an 8 MiB dictionary still allocates the full dictionary
    par_for_with(
        dcases.len(),
        1,
        |_| (0u64, Vec::<u64>::new()),
        |st, i| {
            let c = &dcases[i];
            let desc = || format!("C17|dec|{}|{}", if c.lzma2 { "lzma2" } else { "lzma" }, c.o.desc());
            if !cli.selected_with(desc) {
                return;
            }
            let cont = if c.lzma2 { Container::Lzma2 } else { Container::LzmaRawMarker };
            let Ok(Ok(stream)) = catch(|| codec::encode(&cont, &c.o, &input, &[])) else { return };
            st.0 += 1;
            let r = catch(|| -> std::io::Result<(u64, u64, Option<u64>)> {
                let mut buf = [0u8; 4096];
                if c.lzma2 {
                    let est = lzma2_get_memory_usage(c.o.dict) as u64;
                    let base = alloc::begin();
                    let mut r = LZMA2Reader::new(stream.as_slice(), c.o.dict, None);
                    while r.read(&mut buf)? != 0 {}
                    Ok((alloc::peak_since(base) as u64, est, None))
                } else {
                    let est = lzma_get_memory_usage(c.o.dict, c.o.lc, c.o.lp)? as u64;
                    let est2 = lzma_get_memory_usage_by_props(c.o.dict, c.o.props())? as u64;
                    let base = alloc::begin();
                    let mut r = LZMAReader::new(stream.as_slice(), u64::MAX, c.o.lc, c.o.lp, c.o.pb, c.o.dict, None)?;
                    while r.read(&mut buf)? != 0 {}
                    Ok((alloc::peak_since(base) as u64, est, Some(est2)))
                }
            });
            match r {
                Ok(Ok((peak, est, est2))) => {
                    judge(rep, &desc, if c.lzma2 { "lzma2_get_memory_usage" } else { "lzma_get_memory_usage" }, "-", peak, est, &mut st.1);
                    if let Some(e2) = est2 {
                        if e2 != est {
                            rep.violation(
                                Violation::new("estimators-disagree", "lzma_get_memory_usage_by_props differs from lzma_get_memory_usage for the same lc/lp", desc())
                                    .attr("what", "by_props")
                                    .attr("class", "-")
                                    .detail(format!("{e2} vs {est}")),
                            );
                        }
                    }
                }
                Ok(Err(e)) => rep.violation(Violation::new("error", format!("{:?}", e.kind()), desc()).attr("what", "reader").attr("class", "-").detail(e.to_string())),
                Err(p) => rep.violation(Violation::new("panic", p.site(), desc()).attr("what", "reader").attr("class", "-").detail(p.msg)),
            }
        },
        |st| {
            rep.add_many(&[("evaluations", st.0), ("decoder_estimates", st.0)]);
            rep.nontrivial_many(&st.1);
        },
    );

    // ---------------- (3) memory limit of the .lzma reader
    let limit_dicts: Vec<u32> = vec![0, 1, 4095, 4096, 65536, 1 << 20, 1 << 24, 1 << 30, u32::MAX & !15, u32::MAX];
    let mut lcases: Vec<(u8, u32)> = vec![];
    for props in 0..=224u8 {
        for &d in &limit_dicts {
            lcases.push((props, d));
        }
    }
    for props in [225u8, 255] {
        lcases.push((props, 4096));
    }
    rep.extra("limit_cases", json!(lcases.len() * 5 * 8));
    par_for_with(
        lcases.len(),
        0,
        |_| (0u64, Vec::<u64>::new()),
        |st, i| {
            let (props, dict) = lcases[i];
            let need = lzma_get_memory_usage_by_props(dict, props).ok();
            let limits: Vec<u32> = match need {
                Some(n) => vec![0, n.saturating_sub(1), n, n.saturating_add(1), u32::MAX],
                None => vec![0, u32::MAX],
            };
            // the declared uncompressed size is a header field too: unknown, smaller than the dictionary, and values
            // whose low 32 bits are small
            let sizes: [u64; 8] = [u64::MAX, 0, 1, 4096, dict as u64, 1 << 32, (1 << 40) + 4096, u64::MAX - 1];
            for (limit, size) in limits.iter().flat_map(|l| sizes.iter().map(move |s| (*l, *s))) {
                let mut header = vec![props];
                header.extend_from_slice(&dict.to_le_bytes());
                header.extend_from_slice(&size.to_le_bytes());
                header.extend_from_slice(&[0, 0, 0, 0, 0]); // range coder init bytes
                let desc = || format!("C17|limit|props{}|dict{}|size{}|limit{}", props, dict, size, limit);
                if !cli.selected_with(desc) {
                    continue;
                }
                st.0 += 1;
                // A reader may legitimately use a smaller dictionary for a stream that declares fewer bytes than its
                // dictionary size; then only "what was allocated fits the limit" is demanded (below).
                let may_shrink = size < dict as u64;
                let must_fail = match need {
                    Some(n) => limit < n && !may_shrink,
                    None => true, // invalid props / dictionary: any error will do
                };
                // do not really allocate gigabytes when the limit allows it
                if !must_fail && dict > (64 << 20) {
                    continue;
                }
                let r = catch(|| {
                    let base = alloc::begin();
                    let r = LZMAReader::new_mem_limit(header.as_slice(), limit, None);
                    let peak = alloc::peak_since(base);
                    (r.map(|_| ()).map_err(|e| e.kind()), peak)
                });
                let mk = |kind: &str, site: &str, detail: String| rep.violation(Violation::new(kind, site, desc()).attr("what", "new_mem_limit").attr("class", "-").detail(detail));
                match r {
                    Err(p) => mk("panic", &p.site(), p.msg),
                    Ok((res, peak)) => {
                        if must_fail {
                            match res {
                                Ok(()) => mk("limit-not-enforced", "reader created although the stream needs more than the limit", format!("need {need:?} KiB, limit {limit} KiB")),
                                Err(k) => {
                                    if need.is_some() && k != std::io::ErrorKind::OutOfMemory {
                                        mk("wrong-error-kind", "limit exceeded but the error is not OutOfMemory", format!("{k:?}"));
                                    } else if peak >= 4096 {
                                        mk("allocated-before-failing", "memory was allocated before the limit was checked", format!("{peak} bytes"));
                                    } else {
                                        st.1.push(hash_desc(&desc()));
                                    }
                                }
                            }
                        } else if let Err(k) = res {
                            if need.is_some_and(|n| limit >= n) {
                                mk("limit-too-strict", "reader refused although the limit covers the estimate", format!("need {need:?} limit {limit}: {k:?}"));
                            } else if k != std::io::ErrorKind::OutOfMemory {
                                mk("wrong-error-kind", "limit exceeded but the error is not OutOfMemory", format!("{k:?}"));
                            } else if peak >= 4096 {
                                mk("allocated-before-failing", "memory was allocated before the limit was checked", format!("{peak} bytes"));
                            } else {
                                st.1.push(hash_desc(&desc()));
                            }
                        } else if (peak as u64) > (limit as u64) * 1024 + 4096 {
                            mk("limit-not-enforced", "reader created under a limit and allocated more than the limit", format!("limit {limit} KiB, peak heap during construction {peak} bytes"));
                        } else {
                            st.1.push(hash_desc(&desc()));
                        }
                    }
                }
            }
        },
        |st| {
            rep.add_many(&[("evaluations", st.0), ("limit_checks", st.0)]);
            rep.nontrivial_many(&st.1);
        },
    );
    rep.sample(json!({"encoder": "LZMA2Writer dict 4096 lc3 lp0 Fast/HC4: peak vs LZMAOptions::get_memory_usage()"}));
    rep.sample(json!({"limit": "props 93 dict 65536 limit need-1 -> Err(OutOfMemory) before allocating"}));
}
