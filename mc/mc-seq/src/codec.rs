//! Uniform access to every single-threaded writer/reader of lzma-rust2.

use lzma_rust2::verif::{FilterConfig, FilterType};
use lzma_rust2::{
    CheckType, EncodeMode, LZIPOptions, LZIPReader, LZIPWriter, LZMA2Options, LZMA2Reader,
    LZMA2Writer, LZMAOptions, LZMAReader, LZMAWriter, MFType, XZOptions, XZReader, XZWriter,
};
use std::io::{self, Read, Write};
use std::num::NonZeroU64;

#[derive(Clone, Copy, Debug, PartialEq, Eq, Hash)]
pub struct Opts {
    pub dict: u32,
    pub lc: u32,
    pub lp: u32,
    pub pb: u32,
    pub fast: bool,
    pub bt4: bool,
    pub nice: u32,
    pub depth: i32,
}

impl Opts {
    pub const fn small() -> Self {
        Opts { dict: 4096, lc: 3, lp: 0, pb: 2, fast: true, bt4: false, nice: 32, depth: 0 }
    }
    pub fn lzma(&self) -> LZMAOptions {
        LZMAOptions::new(
            self.dict,
            self.lc,
            self.lp,
            self.pb,
            if self.fast { EncodeMode::Fast } else { EncodeMode::Normal },
            self.nice,
            if self.bt4 { MFType::BT4 } else { MFType::HC4 },
            self.depth,
        )
    }
    pub fn props(&self) -> u8 {
        ((self.pb * 5 + self.lp) * 9 + self.lc) as u8
    }
    pub fn desc(&self) -> String {
        format!(
            "d{}lc{}lp{}pb{}{}{}n{}dp{}",
            self.dict,
            self.lc,
            self.lp,
            self.pb,
            if self.fast { "F" } else { "N" },
            if self.bt4 { "bt4" } else { "hc4" },
            self.nice,
            self.depth
        )
    }
}

#[derive(Clone, Copy, Debug, PartialEq, Eq, Hash)]
pub enum Bcj {
    X86,
    Arm,
    ArmThumb,
    Arm64,
    Ppc,
    Sparc,
    Ia64,
    RiscV,
}

pub const ALL_BCJ: [Bcj; 8] =
    [Bcj::X86, Bcj::Arm, Bcj::ArmThumb, Bcj::Arm64, Bcj::Ppc, Bcj::Sparc, Bcj::Ia64, Bcj::RiscV];

impl Bcj {
    pub fn name(&self) -> &'static str {
        match self {
            Bcj::X86 => "x86",
            Bcj::Arm => "arm",
            Bcj::ArmThumb => "armthumb",
            Bcj::Arm64 => "arm64",
            Bcj::Ppc => "ppc",
            Bcj::Sparc => "sparc",
            Bcj::Ia64 => "ia64",
            Bcj::RiscV => "riscv",
        }
    }
    pub fn alignment(&self) -> u32 {
        match self {
            Bcj::X86 => 1,
            Bcj::Arm | Bcj::Arm64 | Bcj::Ppc | Bcj::Sparc => 4,
            Bcj::ArmThumb | Bcj::RiscV => 2,
            Bcj::Ia64 => 16,
        }
    }
    pub fn filter_type(&self) -> FilterType {
        match self {
            Bcj::X86 => FilterType::BcjX86,
            Bcj::Arm => FilterType::BcjARM,
            Bcj::ArmThumb => FilterType::BcjARMThumb,
            Bcj::Arm64 => FilterType::BcjARM64,
            Bcj::Ppc => FilterType::BcjPPC,
            Bcj::Sparc => FilterType::BcjSPARC,
            Bcj::Ia64 => FilterType::BcjIA64,
            Bcj::RiscV => FilterType::BcjRISCV,
        }
    }
    pub fn writer<W: Write>(&self, w: W, start: usize) -> lzma_rust2::filter::bcj::BCJWriter<W> {
        use lzma_rust2::filter::bcj::BCJWriter as B;
        match self {
            Bcj::X86 => B::new_x86(w, start),
            Bcj::Arm => B::new_arm(w, start),
            Bcj::ArmThumb => B::new_arm_thumb(w, start),
            Bcj::Arm64 => B::new_arm64(w, start),
            Bcj::Ppc => B::new_ppc(w, start),
            Bcj::Sparc => B::new_sparc(w, start),
            Bcj::Ia64 => B::new_ia64(w, start),
            Bcj::RiscV => B::new_riscv(w, start),
        }
    }
    pub fn reader<R: Read>(&self, r: R, start: usize) -> lzma_rust2::filter::bcj::BCJReader<R> {
        use lzma_rust2::filter::bcj::BCJReader as B;
        match self {
            Bcj::X86 => B::new_x86(r, start),
            Bcj::Arm => B::new_arm(r, start),
            Bcj::ArmThumb => B::new_arm_thumb(r, start),
            Bcj::Arm64 => B::new_arm64(r, start),
            Bcj::Ppc => B::new_ppc(r, start),
            Bcj::Sparc => B::new_sparc(r, start),
            Bcj::Ia64 => B::new_ia64(r, start),
            Bcj::RiscV => B::new_riscv(r, start),
        }
    }
}

#[derive(Clone, Copy, Debug, PartialEq, Eq, Hash)]
pub enum Filt {
    Delta(u32),
    Bcj(Bcj, u32),
}

impl Filt {
    pub fn desc(&self) -> String {
        match self {
            Filt::Delta(d) => format!("delta{d}"),
            Filt::Bcj(b, s) => format!("{}@{}", b.name(), s),
        }
    }
    pub fn config(&self) -> FilterConfig {
        match self {
            Filt::Delta(d) => FilterConfig::new_delta(*d),
            Filt::Bcj(b, s) => FilterConfig { filter_type: b.filter_type(), property: *s },
        }
    }
}

#[derive(Clone, Debug, PartialEq, Eq, Hash)]
pub enum Container {
    /// .lzma header, end marker, unknown size
    LzmaHdrMarker,
    /// .lzma header with declared size, no end marker
    LzmaHdrSize,
    /// raw LZMA, end marker
    LzmaRawMarker,
    /// raw LZMA, size known to the reader, no end marker
    LzmaRawSize,
    /// raw LZMA with preset dictionary of the given length (end marker)
    LzmaRawPreset(usize),
    Lzma2,
    Lzma2Chunk(u64),
    Lzma2Preset(usize),
    Xz { check: u8, block: Option<u64>, filters: Vec<Filt> },
    Lzip { member: Option<u64> },
}

pub fn check_type(c: u8) -> CheckType {
    match c {
        0 => CheckType::None,
        1 => CheckType::Crc32,
        4 => CheckType::Crc64,
        _ => CheckType::Sha256,
    }
}

impl Container {
    pub fn desc(&self) -> String {
        match self {
            Container::LzmaHdrMarker => "lzma:hdr+marker".into(),
            Container::LzmaHdrSize => "lzma:hdr+size".into(),
            Container::LzmaRawMarker => "lzma:raw+marker".into(),
            Container::LzmaRawSize => "lzma:raw+size".into(),
            Container::LzmaRawPreset(n) => format!("lzma:raw+preset{n}"),
            Container::Lzma2 => "lzma2".into(),
            Container::Lzma2Chunk(n) => format!("lzma2:chunk{n}"),
            Container::Lzma2Preset(n) => format!("lzma2:preset{n}"),
            Container::Xz { check, block, filters } => format!(
                "xz:check{}:block{}:[{}]",
                check,
                block.map(|b| b.to_string()).unwrap_or_else(|| "-".into()),
                filters.iter().map(|f| f.desc()).collect::<Vec<_>>().join(",")
            ),
            Container::Lzip { member } => {
                format!("lzip:member{}", member.map(|b| b.to_string()).unwrap_or_else(|| "-".into()))
            }
        }
    }
    /// coarse family name used as a known-finding attribute
    pub fn family(&self) -> &'static str {
        match self {
            Container::LzmaHdrMarker
            | Container::LzmaHdrSize
            | Container::LzmaRawMarker
            | Container::LzmaRawSize
            | Container::LzmaRawPreset(_) => "lzma",
            Container::Lzma2 | Container::Lzma2Chunk(_) | Container::Lzma2Preset(_) => "lzma2",
            Container::Xz { .. } => "xz",
            Container::Lzip { .. } => "lzip",
        }
    }
    pub fn is_lzma2_based(&self) -> bool {
        matches!(self.family(), "lzma2" | "xz")
    }
    /// option vectors the container supports (lc+lp<=4 for LZMA2, fixed 3/0/2 for LZIP)
    pub fn accepts(&self, o: &Opts) -> bool {
        match self.family() {
            "lzma2" | "xz" => o.lc + o.lp <= 4,
            "lzip" => o.lc == 3 && o.lp == 0 && o.pb == 2,
            _ => true,
        }
    }
}

pub fn preset_dict(n: usize) -> Vec<u8> {
    let t = mc_core::gen::text();
    let mut v = Vec::with_capacity(n);
    while v.len() < n {
        let k = (n - v.len()).min(t.len());
        v.extend_from_slice(&t[..k]);
    }
    v
}

/// Caller-side operation on a writer.
#[derive(Clone, Copy, Debug, PartialEq, Eq)]
pub enum Op {
    /// write_all the next n bytes of the input
    Write(usize),
    /// write(&[])
    Empty,
    Flush,
}

fn drive<W: Write>(w: &mut W, input: &[u8], ops: &[Op]) -> io::Result<()> {
    let mut off = 0;
    for op in ops {
        match *op {
            Op::Write(n) => {
                w.write_all(&input[off..off + n])?;
                off += n;
            }
            Op::Empty => {
                let n = w.write(&[])?;
                if n != 0 {
                    return Err(io::Error::other("verif: empty write returned non-zero"));
                }
            }
            Op::Flush => w.flush()?,
        }
    }
    if off < input.len() {
        w.write_all(&input[off..])?;
    }
    Ok(())
}

pub fn lzma2_options(c: &Container, o: &Opts) -> LZMA2Options {
    let mut lo = o.lzma();
    let mut chunk = None;
    match c {
        Container::Lzma2Chunk(n) => chunk = NonZeroU64::new(*n),
        Container::Lzma2Preset(n) => lo.preset_dict = Some(preset_dict(*n)),
        _ => {}
    }
    LZMA2Options { lzma_options: lo, chunk_size: chunk }
}

pub fn xz_options(c: &Container, o: &Opts) -> XZOptions {
    let Container::Xz { check, block, filters } = c else { panic!("not xz") };
    let mut xo = XZOptions::with_preset(6);
    xo.lzma_options = o.lzma();
    xo.check_type = check_type(*check);
    xo.block_size = block.and_then(NonZeroU64::new);
    xo.filters = filters.iter().map(|f| f.config()).collect();
    xo
}

pub fn lzip_options(c: &Container, o: &Opts) -> LZIPOptions {
    let Container::Lzip { member } = c else { panic!("not lzip") };
    LZIPOptions { lzma_options: o.lzma(), member_size: member.and_then(NonZeroU64::new) }
}

/// Encode `input` through the writer selected by `c` into `sink`, performing `ops`
/// (then writing whatever is left in one call) and finishing.
pub fn encode_into<W: Write>(
    c: &Container,
    o: &Opts,
    input: &[u8],
    ops: &[Op],
    sink: W,
) -> io::Result<W> {
    match c {
        Container::LzmaHdrMarker => {
            let mut w = LZMAWriter::new_use_header(sink, &o.lzma(), None)?;
            drive(&mut w, input, ops)?;
            w.finish()
        }
        Container::LzmaHdrSize => {
            let mut w = LZMAWriter::new_use_header(sink, &o.lzma(), Some(input.len() as u64))?;
            drive(&mut w, input, ops)?;
            w.finish()
        }
        Container::LzmaRawMarker => {
            let mut w = LZMAWriter::new_no_header(sink, &o.lzma(), true)?;
            drive(&mut w, input, ops)?;
            w.finish()
        }
        Container::LzmaRawSize => {
            let mut w = LZMAWriter::new_no_header(sink, &o.lzma(), false)?;
            drive(&mut w, input, ops)?;
            w.finish()
        }
        Container::LzmaRawPreset(n) => {
            let mut lo = o.lzma();
            lo.preset_dict = Some(preset_dict(*n));
            let mut w = LZMAWriter::new_no_header(sink, &lo, true)?;
            drive(&mut w, input, ops)?;
            w.finish()
        }
        Container::Lzma2 | Container::Lzma2Chunk(_) | Container::Lzma2Preset(_) => {
            let mut w = LZMA2Writer::new(sink, lzma2_options(c, o));
            drive(&mut w, input, ops)?;
            w.finish()
        }
        Container::Xz { .. } => {
            let mut w = XZWriter::new(sink, xz_options(c, o))?;
            drive(&mut w, input, ops)?;
            w.finish()
        }
        Container::Lzip { .. } => {
            let mut w = LZIPWriter::new(sink, lzip_options(c, o));
            drive(&mut w, input, ops)?;
            w.finish()
        }
    }
}

pub fn encode(c: &Container, o: &Opts, input: &[u8], ops: &[Op]) -> io::Result<Vec<u8>> {
    encode_into(c, o, input, ops, Vec::new())
}

/// The dictionary size a reader has to be given for a stream written with `o`.
pub fn reader_dict(o: &Opts) -> u32 {
    o.dict
}

pub enum AnyReader<'a, R: Read + 'a> {
    Lzma(LZMAReader<R>),
    Lzma2(LZMA2Reader<R>),
    Xz(XZReader<'a, R>),
    Lzip(LZIPReader<R>),
}

impl<'a, R: Read + 'a> Read for AnyReader<'a, R> {
    fn read(&mut self, buf: &mut [u8]) -> io::Result<usize> {
        match self {
            AnyReader::Lzma(r) => r.read(buf),
            AnyReader::Lzma2(r) => r.read(buf),
            AnyReader::Xz(r) => r.read(buf),
            AnyReader::Lzip(r) => r.read(buf),
        }
    }
}

impl<'a, R: Read + 'a> AnyReader<'a, R> {
    pub fn into_inner(self) -> R {
        match self {
            AnyReader::Lzma(r) => r.into_inner(),
            AnyReader::Lzma2(r) => r.into_inner(),
            AnyReader::Xz(r) => r.into_inner(),
            AnyReader::Lzip(r) => r.into_inner(),
        }
    }
}

/// Open the reader matching `c` over `src`. `input_len` is the uncompressed length (needed by the
/// raw LZMA variant without end marker).
pub fn open_reader<'a, R: Read + 'a>(
    c: &Container,
    o: &Opts,
    src: R,
    input_len: usize,
    multi_stream: bool,
) -> io::Result<AnyReader<'a, R>> {
    Ok(match c {
        Container::LzmaHdrMarker | Container::LzmaHdrSize => {
            AnyReader::Lzma(LZMAReader::new_mem_limit(src, u32::MAX, None)?)
        }
        Container::LzmaRawMarker => {
            AnyReader::Lzma(LZMAReader::new(src, u64::MAX, o.lc, o.lp, o.pb, o.dict, None)?)
        }
        Container::LzmaRawSize => AnyReader::Lzma(LZMAReader::new(
            src,
            input_len as u64,
            o.lc,
            o.lp,
            o.pb,
            o.dict,
            None,
        )?),
        Container::LzmaRawPreset(n) => {
            let pd = preset_dict(*n);
            AnyReader::Lzma(LZMAReader::new(src, u64::MAX, o.lc, o.lp, o.pb, o.dict, Some(&pd))?)
        }
        Container::Lzma2 | Container::Lzma2Chunk(_) => {
            AnyReader::Lzma2(LZMA2Reader::new(src, reader_dict(o), None))
        }
        Container::Lzma2Preset(n) => {
            let pd = preset_dict(*n);
            AnyReader::Lzma2(LZMA2Reader::new(src, reader_dict(o), Some(&pd)))
        }
        Container::Xz { .. } => AnyReader::Xz(XZReader::new(src, multi_stream)),
        Container::Lzip { .. } => AnyReader::Lzip(LZIPReader::new(src)?),
    })
}

/// Read everything with the given destination buffer size; `Interrupted` is retried as
/// `read_to_end` would. Stops with an error text if more than `limit` bytes come out.
pub fn read_all<R: Read>(r: &mut R, bufsize: usize, limit: usize) -> io::Result<Vec<u8>> {
    let mut out = Vec::new();
    let mut buf = vec![0u8; bufsize.max(1)];
    let mut interrupts = 0;
    loop {
        match r.read(&mut buf) {
            Ok(0) => return Ok(out),
            Ok(n) => {
                if n > buf.len() {
                    return Err(io::Error::other("verif: read returned more than the buffer holds"));
                }
                out.extend_from_slice(&buf[..n]);
                if out.len() > limit {
                    return Err(io::Error::other("verif: output exceeds bound"));
                }
            }
            Err(e) if e.kind() == io::ErrorKind::Interrupted => {
                interrupts += 1;
                if interrupts > 10_000 {
                    return Err(io::Error::other("verif: endless Interrupted"));
                }
            }
            Err(e) => return Err(e),
        }
    }
}

pub fn decode(c: &Container, o: &Opts, comp: &[u8], input_len: usize) -> io::Result<Vec<u8>> {
    let mut r = open_reader(c, o, comp, input_len, true)?;
    read_all(&mut r, 1 << 16, input_len * 2 + (1 << 20))
}
