//! mc-seq: bounded-exhaustive (E-enum) and environment-exploration (E-env) checks of the
//! sequential code of lzma-rust2. One binary, one sub-command per property.

mod c01;
mod c02;
mod c03;
mod c04;
mod c05;
mod c06;
mod c07;
mod c11;
mod c12;
mod c13;
mod c14;
mod c15;
mod c16;
mod c17;
mod c18;
mod c19;
mod iso;
mod corpus;
mod codec;
mod common;
mod refimpl;

use mc_core::run::Cli;
use mc_core::Report;
use std::time::Instant;

#[global_allocator]
static ALLOC: mc_core::alloc::VerifAlloc = mc_core::alloc::VerifAlloc;

fn main() {
    mc_core::run::tune_malloc();
    let cli = Cli::parse();
    mc_core::run::install_panic_hook();
    if std::env::var_os("VERIF_ASAN").is_none() {
        mc_core::alloc::set_default_poison(0xA5);
    }
    let rep = Report::new(&cli.check);
    let t0 = Instant::now();
    match cli.check.as_str() {
        "C01" => c01::run(&cli, &rep),
        "C02" => c02::run(&cli, &rep),
        "C03" => c03::run(&cli, &rep),
        "C04" => c04::run(&cli, &rep),
        "C05" => c05::run(&cli, &rep),
        "C06" => c06::run(&cli, &rep),
        "C07" => c07::run(&cli, &rep),
        "C11" => c11::run(&cli, &rep),
        "debug-bcj2" => {
            c11::debug_bcj2();
            return;
        }
        "C12" => c12::run(&cli, &rep),
        "C13" => c13::run(&cli, &rep),
        "C14" => c14::run(&cli, &rep),
        "C15" => c15::run(&cli, &rep),
        "C16" => c16::run(&cli, &rep),
        "C17" => c17::run(&cli, &rep),
        "C18" => c18::run(&cli, &rep),
        "C19" => c19::run(&cli, &rep),
        other => {
            eprintln!("mc-seq: unknown check {other}");
            std::process::exit(2);
        }
    }
    let wall = t0.elapsed().as_secs_f64();
    let js = rep.to_json(&cli.tier, cli.seed, wall);
    let text = serde_json::to_string_pretty(&js).unwrap();
    match &cli.out {
        Some(p) => std::fs::write(p, text).expect("write --out"),
        None => println!("{text}"),
    }
}
