//! C13 (sequential part) — compressed output is a pure function of input and options:
//! partition invariance, allocator-content independence, history independence.

use crate::codec::{self, Container, Op, Opts};
use crate::common::*;
use mc_core::alloc;
use mc_core::gen::{self, Seg};
use mc_core::report::{brief, fnv};
use mc_core::run::{catch, par_for_with, Cli};
use mc_core::{Report, Violation};
use serde_json::json;

fn conts() -> Vec<Container> {
    vec![Container::LzmaHdrMarker, Container::LzmaRawSize, Container::Lzma2, Container::Xz { check: 1, block: None, filters: vec![] }, Container::Lzip { member: None }]
}

fn combos(dict: u32) -> Vec<Opts> {
    let mut v = vec![];
    for fast in [true, false] {
        for bt4 in [false, true] {
            v.push(Opts { dict, lc: 3, lp: 0, pb: 2, fast, bt4, nice: if fast { 32 } else { 64 }, depth: 0 });
        }
    }
    v
}

pub fn run(cli: &Cli, rep: &Report) {
    let thorough = cli.thorough();
    rep.rule(
        "(a) partition invariance: for LZMA, LZMA2/XZ without chunk/block size and LZIP, all four mode x finder combinations: EVERY single cut position of a 1.5 KiB input, every k-th (k=1 thorough, 7 quick) \
         plus all boundary cuts of a 9 KiB input, every pair of boundary cuts of window-moving inputs (dict 4096, 300/600 KiB): compressed bytes identical to the single-write run; \
         (b) allocator independence: every case of a 40-case set encoded under a poisoning allocator with four fills (bytes A5, bytes 5A, words 00000005, words 00000100): identical outcome (bytes, error or panic); (d) window independence: MICRO(A3,6) and 250 echo/periodic/text shapes x 8 encoder settings with the window buffer pre-filled with 00 / 61 / FF / 5A: identical bytes; \
         (c) history independence: for every ordered pair (y, x) of a 12-input set and every writer, encode(y) then encode(x) gives the same bytes for x whatever y was; non-trivial = at least one cut / a differing predecessor",
    );
    rep.assumption("the poisoning allocator fills every non-zeroed allocation; zeroed allocations (calloc) stay zero as the crate requests them");

    // ---------------- (a) partition invariance
    struct PCase {
        cont: Container,
        opts: Opts,
        segs: Vec<Seg>,
        cuts: Vec<usize>,
    }
    let mut pcases: Vec<PCase> = vec![];
    let small = vec![Seg::C(700), Seg::R(200), Seg::D(500, 600)];
    let mid = vec![Seg::C(5000), Seg::X(4000)];
    for c in conts() {
        for o in combos(4096) {
            if !c.accepts(&o) {
                continue;
            }
            for cut in 1..1500 {
                pcases.push(PCase { cont: c.clone(), opts: o, segs: small.clone(), cuts: vec![cut] });
            }
            let step = if thorough { 1 } else { 7 };
            let mut cuts9: Vec<usize> = (1..9000).step_by(step).collect();
            cuts9.extend([272, 273, 274, 4095, 4096, 4097, 8191, 8192, 8999]);
            cuts9.sort_unstable();
            cuts9.dedup();
            for cut in cuts9 {
                pcases.push(PCase { cont: c.clone(), opts: o, segs: mid.clone(), cuts: vec![cut] });
            }
        }
    }
    // window-moving inputs, pairs of boundary cuts
    let big_n = if thorough { 600_000 } else { 300_000 };
    let bigs: Vec<Vec<Seg>> = vec![vec![Seg::C(big_n)], vec![Seg::X(big_n)], vec![Seg::C(big_n / 2), Seg::R(70_000), Seg::D(4000, big_n / 2 - 70_000)]];
    let bcuts = [1usize, 4096, 4097, 65536, 65537, 270_000, 274_000, 280_000, big_n - 300, big_n - 1];
    // Cuts relative to the encoder's window buffer (its size W is observed from the allocator): a write that ends exactly
    // at, one byte before or one byte after the physical end of the buffer, and two half-window writes. The input is
    // W + 70 000 bytes so that the window moves after the cut; the longest nice length is included because how far the
    // encoder looks ahead at the end of a full window depends on it.
    let mut wsizes = vec![];
    for c in [Container::LzmaHdrMarker, Container::Lzma2, Container::Lzip { member: None }] {
        let mut os = combos(4096);
        os.extend(combos(4096).into_iter().map(|o| Opts { nice: 273, ..o }));
        for o in os {
            mc_core::alloc::begin();
            let _ = catch(|| codec::encode(&c, &o, &[1, 2, 3], &[]));
            let w = mc_core::alloc::biggest_bytes_request();
            if w < 8192 || w > 2_000_000 {
                rep.machinery_error(format!("C13: implausible window size {w} observed for {} {}", c.desc(), o.desc()));
                continue;
            }
            wsizes.push(json!({"container": c.desc(), "opts": o.desc(), "window": w}));
            for segs in [vec![Seg::C(w + 70_000)], vec![Seg::X(w + 70_000)]] {
                for cuts in [vec![w - 1], vec![w], vec![w + 1], vec![w / 2, w], vec![w - 4096, w], vec![w, w + 273], vec![1, w]] {
                    pcases.push(PCase { cont: c.clone(), opts: o, segs: segs.clone(), cuts });
                }
            }
        }
    }
    rep.extra("window_relative_cuts", json!(wsizes));
    for c in [Container::LzmaHdrMarker, Container::Lzma2, Container::Lzip { member: None }] {
        for o in combos(4096) {
            for b in &bigs {
                for i in 0..bcuts.len() {
                    pcases.push(PCase { cont: c.clone(), opts: o, segs: b.clone(), cuts: vec![bcuts[i]] });
                    for j in i + 1..bcuts.len() {
                        if (i + j) % 3 == 0 || thorough {
                            pcases.push(PCase { cont: c.clone(), opts: o, segs: b.clone(), cuts: vec![bcuts[i], bcuts[j]] });
                        }
                    }
                }
            }
        }
    }
    rep.extra("partition_cases", json!(pcases.len()));
    // reference per (cont, opts, segs): cache by key
    let refs: std::sync::Mutex<std::collections::HashMap<String, std::sync::Arc<Vec<u8>>>> = Default::default();
    // heavy first
    let mut order: Vec<usize> = (0..pcases.len()).collect();
    order.sort_by_key(|i| std::cmp::Reverse(pcases[*i].segs.iter().map(|s| s.len()).sum::<usize>()));
    par_for_with(
        order.len(),
        0,
        |_| (0u64, Vec::<u64>::new()),
        |st, k| {
            let pc = &pcases[order[k]];
            let key = format!("{}|{}|{}", pc.cont.desc(), pc.opts.desc(), gen::shape_desc(&pc.segs));
            let desc = || format!("C13|part|{}|cuts{}", key, pc.cuts.iter().map(|c| c.to_string()).collect::<Vec<_>>().join(","));
            if !cli.selected_with(desc) {
                return;
            }
            st.0 += 1;
            let input = gen::build(&pc.segs, cli.seed);
            let reference = {
                let g = refs.lock().unwrap().get(&key).cloned();
                match g {
                    Some(r) => r,
                    None => {
                        let r = match catch(|| codec::encode(&pc.cont, &pc.opts, &input, &[])) {
                            Ok(Ok(r)) => std::sync::Arc::new(r),
                            _ => return,
                        };
                        refs.lock().unwrap().insert(key.clone(), r.clone());
                        r
                    }
                }
            };
            let mut ops = vec![];
            let mut prev = 0;
            for c in &pc.cuts {
                ops.push(Op::Write(c - prev));
                prev = *c;
            }
            let mk = |kind: &str, site: &str, detail: String| {
                rep.violation(Violation::new(kind, site, desc()).attr("family", pc.cont.family()).attr("part", "partition").detail(detail));
            };
            match catch(|| codec::encode(&pc.cont, &pc.opts, &input, &ops)) {
                Ok(Ok(out)) => {
                    if out != *reference {
                        let p = out.iter().zip(reference.iter()).position(|(a, b)| a != b).unwrap_or(out.len().min(reference.len()));
                        mk("partition-dependent", "compressed bytes depend on how the input was split into write calls", format!("single write: {}; this partition: {}; first difference at {p}", brief(&reference), brief(&out)));
                    } else {
                        st.1.push(hash_desc(&desc()));
                    }
                }
                Ok(Err(e)) => mk("encode-error", &format!("{:?}", e.kind()), e.to_string()),
                Err(p) => mk("panic", &p.site(), p.msg),
            }
        },
        |st| {
            rep.add_many(&[("evaluations", st.0), ("partition_runs", st.0)]);
            rep.nontrivial_many(&st.1);
            flush_cov(rep);
        },
    );

    // ---------------- (b) allocator independence + (c) history independence
    let set: Vec<Vec<Seg>> = vec![
        vec![],
        vec![Seg::L(vec![0x61])],
        vec![Seg::C(300)],
        vec![Seg::C(9000)],
        vec![Seg::X(9000)],
        vec![Seg::R(5000)],
        vec![Seg::Z(9000)],
        vec![Seg::P(3, 5000), Seg::C(3000)],
        vec![Seg::R(70_000)],
        vec![Seg::C(100_000)],
        vec![Seg::X(300_000)],
        vec![Seg::C(3000), Seg::D(2999, 6000)],
    ];
    let wconts: Vec<Container> = vec![
        Container::LzmaHdrMarker,
        Container::Lzma2,
        Container::Lzma2Chunk(1),
        Container::Lzma2Preset(300),
        Container::Xz { check: 4, block: Some(1), filters: vec![] },
        Container::Lzip { member: Some(1) },
    ];
    let wopts = vec![Opts::small(), Opts { dict: 65536, fast: false, bt4: true, nice: 64, ..Opts::small() }, Opts { dict: 4096, fast: false, bt4: false, nice: 273, ..Opts::small() }, Opts { dict: 65536, fast: true, bt4: true, nice: 8, ..Opts::small() }];
    struct WJob {
        cont: Container,
        opts: Opts,
    }
    let mut jobs = vec![];
    for c in &wconts {
        for o in &wopts {
            jobs.push(WJob { cont: c.clone(), opts: *o });
        }
    }
    rep.extra("poison_and_history", json!({"inputs": set.len(), "writers": jobs.len()}));
    par_for_with(
        jobs.len(),
        1,
        |_| (0u64, Vec::<u64>::new()),
        |st, ji| {
            let j = &jobs[ji];
            let inputs: Vec<Vec<u8>> = set.iter().map(|s| gen::build(s, cli.seed)).collect();
            let enc = |x: usize| -> Option<Vec<u8>> { catch(|| codec::encode(&j.cont, &j.opts, &inputs[x], &[])).ok()?.ok() };
            // (b) four fill patterns for memory the crate did not ask to be zeroed: two byte patterns and two small
            // words (which look like plausible positions / lengths to a table that is read before it is written)
            for x in 0..inputs.len() {
                let desc = || format!("C13|poison|{}|{}|{}", j.cont.desc(), j.opts.desc(), gen::shape_desc(&set[x]));
                if !cli.selected_with(desc) {
                    continue;
                }
                st.0 += 1;
                let scope_desc = || desc();
                let _scope = mc_core::run::case_scope(&scope_desc);
                // outcome = the bytes, the writer's error, or the panic: all of them must not depend on the fill
                let outcome = |x: usize| -> String {
                    match catch(|| codec::encode(&j.cont, &j.opts, &inputs[x], &[])) {
                        Ok(Ok(b)) => format!("ok {}", brief(&b)),
                        Ok(Err(e)) => format!("error {:?}: {}", e.kind(), e),
                        Err(p) => format!("panic {}: {}", p.site(), p.msg),
                    }
                };
                let mut seen: Vec<(&str, String)> = vec![];
                for (name, word) in [("bytes A5", 0xA5A5_A5A5u32), ("bytes 5A", 0x5A5A_5A5A), ("words 00000005", 5), ("words 00000100", 0x100)] {
                    alloc::set_poison_word(word);
                    let o = outcome(x);
                    alloc::unset_poison();
                    seen.push((name, o));
                }
                if let Some(bad) = seen.iter().find(|(_, o)| *o != seen[0].1) {
                    rep.violation(
                        Violation::new("allocator-dependent", "the result of compressing depends on the previous content of freshly allocated memory", desc())
                            .attr("family", j.cont.family())
                            .attr("part", "poison")
                            .detail(format!("fill {}: {}; fill {}: {}", seen[0].0, seen[0].1, bad.0, bad.1)),
                    );
                } else if seen[0].1.starts_with("ok") {
                    st.1.push(hash_desc(&desc()));
                }
            }
            // (c) history independence: result for x after every predecessor y (and after nothing)
            let mut first: Vec<Option<u64>> = vec![None; inputs.len()];
            for x in 0..inputs.len() {
                if inputs[x].len() > 100_000 && !cli.thorough() {
                    continue; // the two largest inputs only as predecessors in the quick tier
                }
                for y in 0..=inputs.len() {
                    let desc = || {
                        format!(
                            "C13|history|{}|{}|after:{}|x:{}",
                            j.cont.desc(),
                            j.opts.desc(),
                            if y == inputs.len() { "nothing".to_string() } else { gen::shape_desc(&set[y]) },
                            gen::shape_desc(&set[x])
                        )
                    };
                    if !cli.selected_with(desc) {
                        continue;
                    }
                    st.0 += 1;
                    if y < inputs.len() {
                        let _ = enc(y);
                    }
                    let Some(out) = enc(x) else { continue };
                    let h = fnv(&out) ^ (out.len() as u64).rotate_left(40);
                    match first[x] {
                        None => first[x] = Some(h),
                        Some(f) if f != h => rep.violation(
                            Violation::new("history-dependent", "compressed bytes of an input depend on what the thread compressed before", desc())
                                .attr("family", j.cont.family())
                                .attr("part", "history")
                                .detail(format!("output hash {h:016x} differs from the first observed {f:016x}")),
                        ),
                        Some(_) => st.1.push(hash_desc(&desc())),
                    }
                }
            }
        },
        |st| {
            rep.add_many(&[("evaluations", st.0), ("poison_history_runs", st.0)]);
            rep.nontrivial_many(&st.1);
        },
    );
    // (d) independence of the window's initial content: the encoder may only look at bytes it was given. The window
    // buffer is pre-filled (cfg-gated hook) with 00 (what it really is at first), 61, FF and 5A; the compressed bytes must
    // be identical under every fill. Inputs: MICRO(A3,<=6) and echo / periodic / text shapes whose rep matches run to the
    // last byte, so that a length limit that is one too large compares the byte after the data with a real one.
    {
        struct SCase {
            cont: Container,
            o: Opts,
            input: Input,
        }
        let mut scases: Vec<SCase> = vec![];
        let sopts: Vec<Opts> = minigrid(&[4096]);
        let l = if thorough { 7 } else { 6 };
        for s in 0..gen::micro_count(3, l) {
            for o in &sopts {
                for c in [Container::LzmaRawMarker, Container::Lzma2] {
                    if c.accepts(o) {
                        scases.push(SCase { cont: c, o: *o, input: Input::Bytes(gen::micro_nth(&A3, s)) });
                    }
                }
            }
        }
        let mut shapes: Vec<Vec<Seg>> = vec![];
        for n in [40usize, 200, 1000] {
            for d in [1usize, 3, 7, 30] {
                for phase in 0..16u64 {
                    shapes.push(vec![Seg::E(d, n + phase as usize, 1000 + phase)]);
                }
                shapes.push(vec![Seg::P(d, n)]);
                shapes.push(vec![Seg::C(n), Seg::D(d.max(2) * 5, 20)]);
            }
        }
        for sh in &shapes {
            for o in &sopts {
                for c in [Container::LzmaRawMarker, Container::Lzma2] {
                    if c.accepts(o) {
                        scases.push(SCase { cont: c, o: *o, input: Input::Shape(sh.clone()) });
                    }
                }
            }
        }
        rep.extra("stale_window", json!({"cases": scases.len(), "fills": ["00", "61", "FF", "5A"]}));
        let fills: [Option<u8>; 4] = [Some(0x00), Some(0x61), Some(0xFF), Some(0x5A)];
        let mut outcomes: Vec<Vec<u64>> = vec![];
        for f in fills {
            lzma_rust2::verif::stale::set(f);
            let out: Vec<std::sync::atomic::AtomicU64> = (0..scases.len()).map(|_| std::sync::atomic::AtomicU64::new(0)).collect();
            par_for_with(
                scases.len(),
                0,
                |_| (),
                |_, i| {
                    let c = &scases[i];
                    let desc = || format!("C13|stale|{}|{}|{}", c.cont.desc(), c.o.desc(), c.input.desc());
                    if !cli.selected_with(desc) {
                        return;
                    }
                    let input = c.input.build(cli.seed);
                    let h = match catch(|| codec::encode(&c.cont, &c.o, &input, &[])) {
                        Ok(Ok(b)) => fnv(&b) ^ (b.len() as u64).rotate_left(40) | 1,
                        Ok(Err(e)) => fnv(e.to_string().as_bytes()) | 1,
                        Err(p) => fnv(p.msg.as_bytes()) | 1,
                    };
                    out[i].store(h, std::sync::atomic::Ordering::Relaxed);
                },
                |_| {},
            );
            outcomes.push(out.iter().map(|a| a.load(std::sync::atomic::Ordering::Relaxed)).collect());
        }
        lzma_rust2::verif::stale::set(None);
        let mut n = 0u64;
        let mut nt = vec![];
        for (i, c) in scases.iter().enumerate() {
            if outcomes[0][i] == 0 {
                continue; // not selected
            }
            n += 1;
            let desc = || format!("C13|stale|{}|{}|{}", c.cont.desc(), c.o.desc(), c.input.desc());
            if let Some(k) = (1..fills.len()).find(|k| outcomes[*k][i] != outcomes[0][i]) {
                rep.violation(
                    Violation::new("stale-window-dependent", "compressed bytes depend on what the window buffer held before the input was copied in", desc())
                        .attr("family", c.cont.family())
                        .attr("part", "stale")
                        .detail(format!("fill 00: outcome {:016x}; fill {:02x}: outcome {:016x}", outcomes[0][i], fills[k].unwrap(), outcomes[k][i])),
                );
            } else {
                nt.push(hash_desc(&desc()));
            }
        }
        rep.add_many(&[("evaluations", n * fills.len() as u64), ("stale_window_runs", n * fills.len() as u64)]);
        rep.nontrivial_many(&nt);
    }
    rep.sample(json!({"partition": "lzma2 dict 4096 Normal/BT4, input C5000+X4000, cut at 4097"}));
    rep.sample(json!({"poison": "xz block 4096, input X300000, allocator fills A5 / 5A / word 5 / word 0x100"}));
    rep.sample(json!({"history": "lzip after R70000 then C9000 vs after nothing"}));
}
