//! C07 — results do not depend on how callers split writes, flushes and reads.

use crate::c05::{reader_cases, RCase};
use crate::codec::{self, Bcj, Container, Filt, Op, Opts, ALL_BCJ};
use crate::common::*;
use crate::corpus;
use lzma_rust2::filter::delta::DeltaWriter;
use mc_core::explore::{self, Ctx};
use mc_core::gen::{self, Seg};
use mc_core::report::{brief, hex};
use mc_core::run::{catch, par_for_with, Cli};
use mc_core::{Report, Violation};
use serde_json::json;
use std::io::{self, Read, Write};

/// Per-architecture alphabets of bytes that make up branch instructions (plus neutral bytes).
pub fn bcj_alphabet(b: Bcj) -> &'static [u8] {
    match b {
        Bcj::X86 => &[0xE8, 0xE9, 0x00, 0xFF, 0x12],
        Bcj::Arm => &[0xEB, 0x00, 0xFF, 0x7F],
        Bcj::ArmThumb => &[0xF0, 0xF8, 0xF7, 0x00, 0xFF],
        Bcj::Arm64 => &[0x94, 0x97, 0x90, 0x9F, 0x00, 0xFF],
        Bcj::Ppc => &[0x48, 0x4B, 0x01, 0x03, 0x00],
        Bcj::Sparc => &[0x40, 0x7F, 0x00, 0xC0, 0xFF],
        Bcj::Ia64 => &[0x10, 0x11, 0x16, 0x00, 0xA0],
        Bcj::RiscV => &[0xEF, 0x17, 0x97, 0x00, 0x80, 0xFF],
    }
}

fn ops_desc(ops: &[Op]) -> String {
    if ops.is_empty() {
        return "-".into();
    }
    ops.iter()
        .map(|o| match o {
            Op::Write(n) => format!("w{n}"),
            Op::Empty => "e".into(),
            Op::Flush => "f".into(),
        })
        .collect::<Vec<_>>()
        .join(".")
}

fn drive<W: Write>(w: &mut W, input: &[u8], ops: &[Op]) -> io::Result<()> {
    let mut off = 0;
    for op in ops {
        match *op {
            Op::Write(n) => {
                w.write_all(&input[off..off + n])?;
                off += n;
            }
            Op::Empty => {
                w.write(&[])?;
            }
            Op::Flush => w.flush()?,
        }
    }
    w.write_all(&input[off..])
}

/// Histories for a container writer: every set of <= 3 cuts from the boundary set, each also
/// with one flush / one empty write inserted at every operation boundary, and with both.
fn histories(n: usize) -> Vec<Vec<Op>> {
    let mut cuts: Vec<usize> = [1usize, 2, 273, 274, 4095, 4096, 4097, n.saturating_sub(1)].into_iter().filter(|c| *c > 0 && *c < n).collect();
    cuts.sort_unstable();
    cuts.dedup();
    let mut sets: Vec<Vec<usize>> = vec![vec![]];
    for i in 0..cuts.len() {
        sets.push(vec![cuts[i]]);
        for j in i + 1..cuts.len() {
            sets.push(vec![cuts[i], cuts[j]]);
            for k in j + 1..cuts.len() {
                sets.push(vec![cuts[i], cuts[j], cuts[k]]);
            }
        }
    }
    let mut out: Vec<Vec<Op>> = vec![];
    for set in sets {
        let mut base = vec![];
        let mut prev = 0;
        for c in &set {
            base.push(Op::Write(c - prev));
            prev = *c;
        }
        out.push(base.clone());
        if set.len() <= 2 {
            for pos in 0..=base.len() {
                for extra in [Op::Flush, Op::Empty] {
                    let mut h = base.clone();
                    h.insert(pos, extra);
                    out.push(h);
                }
            }
            let mut h = vec![Op::Flush, Op::Empty];
            h.extend(base.iter().cloned());
            h.push(Op::Empty);
            h.push(Op::Flush);
            out.push(h);
        }
    }
    out
}

const BUF_MENU: [usize; 11] = [1 << 16, 0, 1, 2, 3, 5, 7, 4095, 4096, 4097, 1 << 20];

/// Read with caller-chosen destination sizes: `sizes(i)` gives the size of the i-th call.
fn read_with(r: &mut dyn Read, mut sizes: impl FnMut(usize) -> usize, limit: usize) -> io::Result<(Vec<u8>, bool)> {
    let mut out = vec![];
    let mut zero_ok = true;
    let mut i = 0;
    let mut zero_streak = 0;
    loop {
        let sz = sizes(i);
        i += 1;
        let mut buf = vec![0xAAu8; sz];
        let n = r.read(&mut buf)?;
        if n > sz {
            return Err(io::Error::other("verif: read returned more than the buffer holds"));
        }
        if sz == 0 {
            if n != 0 {
                zero_ok = false;
            }
            zero_streak += 1;
            if zero_streak > 4 {
                return Err(io::Error::other("verif: driver asked for too many empty reads"));
            }
            continue;
        }
        zero_streak = 0;
        if n == 0 {
            return Ok((out, zero_ok));
        }
        out.extend_from_slice(&buf[..n]);
        if out.len() > limit {
            return Err(io::Error::other("verif: output exceeds bound"));
        }
    }
}

pub fn run(cli: &Cli, rep: &Report) {
    let thorough = cli.thorough();
    rep.rule(
        "writers: (A) BCJ x8 and Delta filter writers over MICRO(arch opcode alphabet, n<=L) x ALL 2^(n-1) partitions into write calls, oracle = bytes of the single-write run; \
         (B) every container writer x inputs x every history with <=3 cuts from a boundary set and inserted flush()/empty writes, oracle = decodes to the concatenation; \
         readers: every reader x corpus stream x every sequence of destination sizes with <=d deviations from one big buffer over {0,1,2,3,5,7,4095,4096,4097,1 MiB} plus uniform and \
         zero-interleaved size patterns, oracle = identical bytes and zero-length reads return 0; non-trivial = at least two write calls / one non-default buffer size",
    );
    rep.assumption("histories and size sequences outside the enumerated sets are not covered");

    // ---------------- (A) filter writers, all compositions
    let n_max = if thorough { 13 } else { 10 };
    #[derive(Clone)]
    struct FCase {
        kind: Option<Bcj>, // None = delta
        dist: usize,
        input: Vec<u8>,
    }
    let mut fcases: Vec<FCase> = vec![];
    for b in ALL_BCJ {
        let a = bcj_alphabet(b);
        // strings of exactly the interesting lengths: one instruction +- a few bytes
        let lens: Vec<usize> = match b {
            Bcj::Ia64 => vec![16, 17, 20],
            Bcj::RiscV => vec![8, 9, 10],
            Bcj::X86 => vec![5, 6, 7],
            _ => vec![4, 5, 6, 8],
        };
        for &len in &lens {
            let len = len.min(n_max);
            // all strings over the alphabet of length `len` is too many for ia64: use a sliding
            // family there: every position holds every alphabet byte while the rest is a fixed
            // branch-like pattern
            let total = a.len().pow(len as u32);
            if total <= 4000 {
                for idx in 0..total {
                    let mut v = vec![0u8; len];
                    let mut x = idx;
                    for i in (0..len).rev() {
                        v[i] = a[x % a.len()];
                        x /= a.len();
                    }
                    fcases.push(FCase { kind: Some(b), dist: 0, input: v });
                }
            } else {
                for pos in 0..len {
                    for &byte in a {
                        let mut v: Vec<u8> = (0..len).map(|i| a[i % a.len()]).collect();
                        v[pos] = byte;
                        fcases.push(FCase { kind: Some(b), dist: 0, input: v });
                    }
                }
            }
        }
    }
    for d in [1usize, 2, 3, 255, 256] {
        for idx in 0..gen::micro_count(3, 7) {
            let v = gen::micro_nth(&A3, idx);
            if v.len() >= 2 {
                fcases.push(FCase { kind: None, dist: d, input: v });
            }
        }
        fcases.push(FCase { kind: None, dist: d, input: (0..n_max as u8).map(|i| i.wrapping_mul(37)).collect() });
    }
    rep.extra("filter_writer_inputs", json!(fcases.len()));
    par_for_with(
        fcases.len(),
        0,
        |_| (0u64, Vec::<u64>::new()),
        |st, i| {
            let fc = &fcases[i];
            let fam = if fc.kind.is_some() { "bcj" } else { "delta" };
            let name = match fc.kind {
                Some(b) => format!("bcjwriter-{}", b.name()),
                None => format!("deltawriter-{}", fc.dist),
            };
            let run_hist = |parts: &[usize]| -> io::Result<Vec<u8>> {
                let ops: Vec<Op> = parts.iter().map(|p| Op::Write(*p)).collect();
                let mut out = Vec::new();
                match fc.kind {
                    Some(b) => drive(&mut b.writer(&mut out, 0), &fc.input, &ops)?,
                    None => drive(&mut DeltaWriter::new(&mut out, fc.dist), &fc.input, &ops)?,
                }
                Ok(out)
            };
            let reference = match catch(|| run_hist(&[fc.input.len()])) {
                Ok(Ok(r)) => r,
                _ => return,
            };
            for parts in gen::compositions(fc.input.len()) {
                if parts.len() < 2 {
                    continue;
                }
                let desc = || format!("C07|fw|{}|{}|{}", name, hex(&fc.input), parts.iter().map(|p| p.to_string()).collect::<Vec<_>>().join("+"));
                if !cli.selected_with(desc) {
                    continue;
                }
                st.0 += 1;
                match catch(|| run_hist(&parts)) {
                    Ok(Ok(out)) if out == reference => st.1.push(hash_desc(&desc())),
                    Ok(Ok(out)) => rep.violation(
                        Violation::new("partition-dependent", "filter writer output depends on how the input is split into write calls", desc())
                            .attr("family", fam)
                            .attr("side", "writer")
                            .detail(format!("single write gives {}, this partition gives {}", hex(&reference), hex(&out))),
                    ),
                    Ok(Err(e)) => rep.violation(Violation::new("spurious-error", format!("{:?}", e.kind()), desc()).attr("family", fam).attr("side", "writer").detail(e.to_string())),
                    Err(p) => rep.violation(Violation::new("panic", p.site(), desc()).attr("family", fam).attr("side", "writer").detail(p.msg)),
                }
            }
        },
        |st| {
            rep.add_many(&[("evaluations", st.0), ("filter_writer_histories", st.0)]);
            rep.nontrivial_many(&st.1);
        },
    );

    // ---------------- (B) container writers, cut/flush/empty histories
    let conts: Vec<Container> = vec![
        Container::LzmaHdrMarker,
        Container::LzmaHdrSize,
        Container::LzmaRawMarker,
        Container::LzmaRawPreset(300),
        Container::Lzma2,
        Container::Lzma2Chunk(1),
        Container::Lzma2Preset(300),
        Container::Xz { check: 1, block: None, filters: vec![] },
        Container::Xz { check: 4, block: Some(1), filters: vec![Filt::Delta(4)] },
        Container::Xz { check: 1, block: Some(1), filters: vec![Filt::Bcj(Bcj::X86, 0)] },
        Container::Lzip { member: None },
        Container::Lzip { member: Some(1) },
    ];
    let winputs: Vec<Vec<Seg>> = {
        let mut v = vec![vec![Seg::C(9000)], vec![Seg::X(9000)], vec![Seg::R(9000)], vec![Seg::C(300)], vec![Seg::L(vec![0x61, 0x62, 0x63])]];
        if thorough {
            v.push(vec![Seg::R(70_000), Seg::C(5000)]);
            v.push(vec![Seg::X(300_000)]);
        }
        v
    };
    let wopts = vec![Opts::small(), Opts { dict: 65536, fast: false, bt4: true, nice: 64, ..Opts::small() }];
    struct WCase {
        cont: Container,
        opts: Opts,
        segs: Vec<Seg>,
        ops: Vec<Op>,
    }
    let mut wcases: Vec<WCase> = vec![];
    for segs in &winputs {
        let n: usize = segs.iter().map(|s| s.len()).sum();
        let hs = histories(n);
        for c in &conts {
            for o in &wopts {
                for h in &hs {
                    wcases.push(WCase { cont: c.clone(), opts: *o, segs: segs.clone(), ops: h.clone() });
                }
            }
        }
    }
    rep.extra("container_writer_histories", json!(wcases.len()));
    par_for_with(
        wcases.len(),
        0,
        |_| (0u64, Vec::<u64>::new()),
        |st, i| {
            let wc = &wcases[i];
            let desc = || format!("C07|cw|{}|{}|{}|{}", wc.cont.desc(), wc.opts.desc(), gen::shape_desc(&wc.segs), ops_desc(&wc.ops));
            if !cli.selected_with(desc) {
                return;
            }
            st.0 += 1;
            let input = gen::build(&wc.segs, cli.seed);
            let bcj = matches!(&wc.cont, Container::Xz { filters, .. } if filters.iter().any(|f| matches!(f, Filt::Bcj(..))));
            let writes = wc.ops.iter().filter(|o| matches!(o, Op::Write(_))).count();
            let attrs = [("family", wc.cont.family().to_string()), ("side", "writer".to_string()), ("bcj", bcj.to_string()), ("multiwrite", (writes >= 1).to_string())];
            let (out, _) = round_trip(rep, &desc, &attrs, &wc.cont, &wc.opts, &input, &wc.ops, true);
            if matches!(out, RtOutcome::Ok { .. }) && !wc.ops.is_empty() {
                st.1.push(hash_desc(&desc()));
            }
        },
        |st| {
            rep.add_many(&[("evaluations", st.0), ("container_writer_runs", st.0)]);
            rep.nontrivial_many(&st.1);
            flush_cov(rep);
        },
    );

    // ---------------- readers: destination buffer size sequences
    let mut items = corpus::small();
    if thorough {
        items.extend(corpus::medium());
    }
    // streams longer than their dictionary whose matches lie close to the dictionary size: the decoder's window wraps
    // and match copies cross the wrap point, so a destination buffer can end inside the second half of a wrapped copy
    {
        let o = Opts { dict: 4096, ..Opts::small() };
        for (period, total) in [(4000usize, 20_000usize), (4096, 13_000), (3000, 9_000)] {
            let input = gen::build(&[Seg::R(period), Seg::D(period, total - period)], 3);
            for (name, cont) in [
                ("lzma", Container::LzmaHdrMarker),
                ("lzma2", Container::Lzma2),
                ("lzip", Container::Lzip { member: None }),
                ("xz", Container::Xz { check: 1, block: None, filters: vec![] }),
            ] {
                if let Ok(Ok(bytes)) = catch(|| codec::encode(&cont, &o, &input, &[])) {
                    items.push(corpus::Item { name: format!("{name}-wrap-p{period}-n{total}"), cont, opts: o, input: input.clone(), bytes, foreign: false });
                }
            }
        }
    }
    // all container and filter readers, plus BCJ2 streams (branch-dense real x86 code, every / every other branch
    // converted by the harness's reference encoder): the main stream is the case's source, the call, jump and range
    // coder streams are in memory
    let mut rcases: Vec<RCase> = reader_cases(&items);
    // the multi-threaded LZIP reader (needs Seek: it reads its own copy of the file; real worker threads)
    for it in &items {
        if matches!(it.cont, Container::Lzip { .. }) && !it.bytes.is_empty() {
            let bytes = it.bytes.clone();
            rcases.push(RCase {
                name: format!("{}-mt2", it.name),
                family: "lzip-mt",
                bytes: it.bytes.clone(),
                expect: it.input.clone(),
                open: Box::new(move |_src| Ok(Box::new(lzma_rust2::LZIPReaderMT::new(io::Cursor::new(bytes.clone()), 2)?) as Box<dyn io::Read + '_>)),
                complete_at: vec![],
            });
        }
    }
    for (len, mode) in [(3000usize, 0u32), (3000, 2), (40_000, 0)] {
        let code = gen::build(&[Seg::X(len)], 1);
        let [main, call, jump, rc] = crate::c11::bcj2_encode_policy(&code, mode);
        let size = code.len() as u64;
        rcases.push(RCase {
            name: format!("bcj2-x{len}-mode{mode}"),
            family: "bcj2",
            bytes: main,
            expect: code,
            open: Box::new(move |src| {
                let inputs: Vec<Box<dyn io::Read + '_>> = vec![src, Box::new(io::Cursor::new(call.clone())), Box::new(io::Cursor::new(jump.clone())), Box::new(io::Cursor::new(rc.clone()))];
                Ok(Box::new(lzma_rust2::filter::bcj2::BCJ2Reader::new(inputs, size)) as Box<dyn io::Read + '_>)
            }),
            complete_at: vec![],
        });
    }
    let dev_bound = if thorough { 3 } else { 2 };
    par_for_with(
        rcases.len(),
        1,
        |_| (),
        |_, i| {
            let case = &rcases[i];
            let limit = case.expect.len() * 2 + (1 << 16);
            let run = |sizes: &mut dyn FnMut(usize) -> usize| -> Result<io::Result<(Vec<u8>, bool)>, mc_core::run::PanicInfo> {
                catch(|| {
                    let mut r = (case.open)(Box::new(case.bytes.as_slice()))?;
                    read_with(&mut *r, |k| sizes(k), limit)
                })
            };
            let judge = |r: Result<io::Result<(Vec<u8>, bool)>, mc_core::run::PanicInfo>, desc: &dyn Fn() -> String| -> bool {
                let mk = |kind: &str, site: String, detail: String| rep.violation(Violation::new(kind, site, desc()).attr("family", case.family).attr("side", "reader").detail(detail));
                match r {
                    Err(p) => {
                        mk("panic", p.site(), p.msg);
                        false
                    }
                    Ok(Err(e)) => {
                        mk("buffer-size-dependent", format!("reader fails for this sequence of destination sizes: {:?}: {}", e.kind(), mc_core::run::normalise(&e.to_string())), e.to_string());
                        false
                    }
                    Ok(Ok((out, zero_ok))) => {
                        if out != case.expect {
                            mk(
                                "buffer-size-dependent",
                                "decoded bytes depend on the destination buffer sizes".into(),
                                format!("got {} expected {}", brief(&out), brief(&case.expect)),
                            );
                            false
                        } else if !zero_ok {
                            mk("zero-read", "zero-length read returned a non-zero count".into(), String::new());
                            false
                        } else {
                            true
                        }
                    }
                }
            };
            // replay mode
            if let Some(only) = &cli.only {
                let prefix = format!("C07|r|{}|", case.name);
                for o in only.iter().filter(|o| o.starts_with(&prefix)) {
                    let spec = &o[prefix.len()..];
                    rep.add("evaluations", 1);
                    if let Some(u) = spec.strip_prefix("uniform") {
                        let s: usize = u.parse().unwrap_or(1);
                        judge(run(&mut |_| s), &|| o.to_string());
                    } else if let Some(u) = spec.strip_prefix("zero-interleaved") {
                        let s: usize = u.parse().unwrap_or(1);
                        judge(run(&mut |k| if k % 2 == 0 { 0 } else { s }), &|| o.to_string());
                    } else if let Some(forced) = explore::parse_desc(spec) {
                        let mut c = Ctx::with_forced(forced);
                        judge(run(&mut |_| BUF_MENU[c.point(BUF_MENU.len() as u32) as usize]), &|| o.to_string());
                    }
                }
                return;
            }
            let mut nontrivial = vec![];
            // uniform and zero-interleaved patterns
            let mut n_uniform = 0u64;
            for s in [1usize, 2, 3, 5, 7, 4095, 4096, 4097] {
                if s < 16 && case.expect.len() > 20_000 {
                    continue; // byte-wise reads of the medium streams only in the sizes >= 4095
                }
                for (pat, zero) in [("uniform", false), ("zero-interleaved", true)] {
                    let desc = || format!("C07|r|{}|{}{}", case.name, pat, s);
                    n_uniform += 1;
                    if judge(run(&mut |k| if zero && k % 2 == 0 { 0 } else { s }), &desc) {
                        nontrivial.push(hash_desc(&desc()));
                    }
                }
            }
            let st = explore::explore(dev_bound, 2_000_000, |c| {
                let r = run(&mut |_| BUF_MENU[c.point(BUF_MENU.len() as u32) as usize]);
                let d = c.desc();
                let desc = || format!("C07|r|{}|{}", case.name, d);
                if judge(r, &desc) && c.deviations() > 0 {
                    nontrivial.push(hash_desc(&desc()));
                }
            });
            rep.nontrivial_many(&nontrivial);
            rep.add_many(&[("evaluations", st.runs + n_uniform), ("reader_runs", st.runs + n_uniform)]);
            if st.capped {
                rep.add("capped", 1);
            }
            if i % 11 == 0 {
                rep.sample(json!({"reader_stream": case.name, "size_sequences": st.runs, "by_deviations": st.by_devs, "uniform_patterns": n_uniform}));
            }
        },
        |_| flush_cov(rep),
    );
    rep.sample(json!({"filter_writer": "bcjwriter-x86", "input": "e800000000ff", "partition": "1+2+3"}));
    rep.sample(json!({"container_writer": "xz:check1:block1:[x86@0]", "history": "f.e.w4096.w1.e.f"}));
}
