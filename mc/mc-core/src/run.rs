//! Parallel case runner, panic capture, CLI parsing shared by the harness binaries.

use std::cell::RefCell;
use std::panic::{self, AssertUnwindSafe};
use std::sync::atomic::{AtomicUsize, Ordering};
use std::sync::Once;

#[derive(Clone, Debug)]
pub struct PanicInfo {
    pub file: String,
    pub line: u32,
    pub msg: String,
}

impl PanicInfo {
    /// Stable identity of the panic: source file (repo-relative) and the message with every digit
    /// run replaced by `#`. No line numbers.
    pub fn site(&self) -> String {
        format!("{}: {}", short_file(&self.file), normalise(&self.msg))
    }
}

pub fn short_file(f: &str) -> String {
    if let Some(i) = f.find("/repo/src/") {
        return f[i + 6..].to_string();
    }
    if let Some(i) = f.rfind("/library/") {
        return format!("std:{}", &f[i + 9..]);
    }
    if let Some(i) = f.rfind("/src/") {
        // keep crate dir name + file
        let head = &f[..i];
        let krate = head.rsplit('/').next().unwrap_or("");
        return format!("{}{}", krate, &f[i..]);
    }
    f.to_string()
}

pub fn normalise(msg: &str) -> String {
    let mut out = String::with_capacity(msg.len());
    let mut in_num = false;
    for c in msg.chars().take(200) {
        if c.is_ascii_digit() {
            if !in_num {
                out.push('#');
                in_num = true;
            }
        } else {
            in_num = false;
            out.push(if c == '\n' { ' ' } else { c });
        }
    }
    out
}

thread_local! {
    static LAST_PANIC: RefCell<Option<PanicInfo>> = const { RefCell::new(None) };
    static QUIET: RefCell<bool> = const { RefCell::new(false) };
}

static HOOK: Once = Once::new();

thread_local! {
    /// produces the descriptor of the case this thread is executing (set by `case_scope`)
    static CURRENT_CASE: std::cell::Cell<Option<*const (dyn Fn() -> String + 'static)>> = const { std::cell::Cell::new(None) };
}

/// While the returned guard lives, an abort of the process on this thread is attributed to the case `desc()` names.
pub fn case_scope<'a>(desc: &'a (dyn Fn() -> String + 'a)) -> CaseScope<'a> {
    // the pointer is cleared before `desc` goes out of scope (guard lifetime), so the lifetime erasure is sound
    let p: *const (dyn Fn() -> String + 'a) = desc;
    let p: *const (dyn Fn() -> String + 'static) = unsafe { std::mem::transmute(p) };
    let prev = CURRENT_CASE.with(|c| c.replace(Some(p)));
    CaseScope { prev, _m: std::marker::PhantomData }
}

pub struct CaseScope<'a> {
    prev: Option<*const (dyn Fn() -> String + 'static)>,
    _m: std::marker::PhantomData<&'a ()>,
}

impl Drop for CaseScope<'_> {
    fn drop(&mut self) {
        let _ = CURRENT_CASE.try_with(|c| c.set(self.prev));
    }
}

fn current_case() -> String {
    CURRENT_CASE
        .try_with(|c| c.get())
        .ok()
        .flatten()
        .map(|p| unsafe { (*p)() })
        .unwrap_or_else(|| "unknown (the aborting thread runs no harness case)".to_string())
}

fn payload_text(info: &panic::PanicHookInfo<'_>) -> String {
    if let Some(s) = info.payload().downcast_ref::<&str>() {
        s.to_string()
    } else if let Some(s) = info.payload().downcast_ref::<String>() {
        s.clone()
    } else {
        "<non-string panic payload>".to_string()
    }
}

fn file_for_marker(info: &panic::PanicHookInfo<'_>) -> String {
    info.location().map(|l| l.file().to_string()).unwrap_or_default()
}

fn one_line(s: &str) -> String {
    s.replace('\n', " ").chars().take(300).collect()
}

/// SIGABRT / SIGSEGV / SIGBUS / SIGILL in a harness process: leave a marker for the driver (no allocation, no
/// formatting), then die by the default action.
extern "C" fn fatal_signal(sig: libc::c_int) {
    let msg: &[u8] = match sig {
        libc::SIGABRT => b"VERIF-ABORT signal=SIGABRT\n",
        libc::SIGSEGV => b"VERIF-ABORT signal=SIGSEGV\n",
        libc::SIGBUS => b"VERIF-ABORT signal=SIGBUS\n",
        _ => b"VERIF-ABORT signal=other\n",
    };
    unsafe {
        libc::write(2, msg.as_ptr() as *const libc::c_void, msg.len());
        libc::signal(sig, libc::SIG_DFL);
        libc::raise(sig);
    }
}

pub fn install_panic_hook() {
    HOOK.call_once(|| {
        if std::env::var_os("VERIF_ASAN").is_none() {
            unsafe {
                // an alternate stack, so that a stack overflow can be reported too
                let size = 64 << 10;
                let stack = libc::mmap(std::ptr::null_mut(), size, libc::PROT_READ | libc::PROT_WRITE, libc::MAP_PRIVATE | libc::MAP_ANONYMOUS, -1, 0);
                if stack != libc::MAP_FAILED {
                    let ss = libc::stack_t { ss_sp: stack, ss_flags: 0, ss_size: size };
                    libc::sigaltstack(&ss, std::ptr::null_mut());
                }
                for sig in [libc::SIGABRT, libc::SIGSEGV, libc::SIGBUS, libc::SIGILL] {
                    let mut sa: libc::sigaction = std::mem::zeroed();
                    sa.sa_sigaction = fatal_signal as usize;
                    sa.sa_flags = libc::SA_ONSTACK | libc::SA_RESETHAND;
                    libc::sigaction(sig, &sa, std::ptr::null_mut());
                }
            }
        }
        let default = panic::take_hook();
        panic::set_hook(Box::new(move |info| {
            let (file, line) = info
                .location()
                .map(|l| (l.file().to_string(), l.line()))
                .unwrap_or_default();
            let msg = if let Some(s) = info.payload().downcast_ref::<&str>() {
                s.to_string()
            } else if let Some(s) = info.payload().downcast_ref::<String>() {
                s.clone()
            } else {
                "<non-string panic payload>".to_string()
            };
            // Only the first panic of a capture window is kept (later ones are usually
            // consequences, e.g. poisoned locks or runtime teardown).
            LAST_PANIC.with(|p| {
                let mut p = p.borrow_mut();
                if p.is_none() {
                    *p = Some(PanicInfo { file, line, msg });
                }
            });
            // A panic that cannot unwind (Rust's checks of unsafe preconditions, a panic inside a destructor during
            // unwinding, a panic across an FFI boundary) aborts the whole harness process. The marker line lets the
            // driver attribute the abort to the code under test and to the case in flight.
            let text = payload_text(info);
            if text.starts_with("unsafe precondition(s) violated") || text.contains("cannot unwind") || text.contains("destructor during cleanup") {
                let case = current_case();
                eprintln!("VERIF-ABORT site={}:{} msg={} case={}", file_for_marker(info), info.location().map(|l| l.line()).unwrap_or(0), one_line(&text), case);
            }
            let quiet = QUIET.with(|q| *q.borrow());
            if !quiet {
                default(info);
            }
        }));
    });
}

/// Runs `f`, converting a panic into `Err(PanicInfo)`. Panic output is suppressed.
pub fn catch<R>(f: impl FnOnce() -> R) -> Result<R, PanicInfo> {
    install_panic_hook();
    LAST_PANIC.with(|p| *p.borrow_mut() = None);
    let was = QUIET.with(|q| q.replace(true));
    let r = panic::catch_unwind(AssertUnwindSafe(f));
    QUIET.with(|q| *q.borrow_mut() = was);
    match r {
        Ok(v) => Ok(v),
        Err(_) => Err(LAST_PANIC.with(|p| p.borrow_mut().take()).unwrap_or(PanicInfo {
            file: "?".into(),
            line: 0,
            msg: "panic without captured info".into(),
        })),
    }
}

/// Take the panic recorded on this thread (if any) without catching; used when a foreign runtime
/// catches the panic itself.
pub fn take_last_panic() -> Option<PanicInfo> {
    LAST_PANIC.with(|p| p.borrow_mut().take())
}

pub fn set_quiet(q: bool) -> bool {
    install_panic_hook();
    QUIET.with(|c| c.replace(q))
}

pub fn clear_last_panic() {
    LAST_PANIC.with(|p| *p.borrow_mut() = None);
}

pub fn threads() -> usize {
    std::env::var("VERIF_THREADS")
        .ok()
        .and_then(|s| s.parse().ok())
        .unwrap_or_else(|| std::thread::available_parallelism().map(|n| n.get()).unwrap_or(8))
        .max(1)
}

/// Runs `f(i)` for every `i in 0..n` on `threads()` OS threads (work distributed in small blocks).
pub fn par_for<F: Fn(usize) + Sync>(n: usize, f: F) {
    par_for_with(n, 0, |_| (), |_, i| f(i), |_| ());
}

/// As `par_for`, with per-thread state: `init(thread_index)`, `body(&mut state, i)`,
/// `fini(state)` once per thread after its last case.
pub fn par_for_with<S, I, B, E>(n: usize, block: usize, init: I, body: B, fini: E)
where
    I: Fn(usize) -> S + Sync,
    B: Fn(&mut S, usize) + Sync,
    E: Fn(S) + Sync,
{
    let nt = threads().min(n.max(1));
    let block = if block == 0 { (n / (nt * 64)).clamp(1, 4096) } else { block };
    let next = AtomicUsize::new(0);
    std::thread::scope(|sc| {
        for t in 0..nt {
            let next = &next;
            let init = &init;
            let body = &body;
            let fini = &fini;
            std::thread::Builder::new()
                .stack_size(16 << 20)
                .spawn_scoped(sc, move || {
                    let mut st = init(t);
                    loop {
                        let start = next.fetch_add(block, Ordering::Relaxed);
                        if start >= n {
                            break;
                        }
                        for i in start..(start + block).min(n) {
                            body(&mut st, i);
                        }
                    }
                    fini(st);
                })
                .expect("spawn worker");
        }
    });
}

/// Parsed command line of a harness binary.
#[derive(Clone, Debug)]
pub struct Cli {
    pub check: String,
    pub tier: String,
    pub seed: u64,
    /// when set, only cases whose descriptor is in this set are executed
    pub only: Option<std::collections::HashSet<String>>,
    pub out: Option<String>,
    pub args: Vec<String>,
}

impl Cli {
    pub fn parse() -> Self {
        let mut a = std::env::args().skip(1);
        let mut cli = Cli {
            check: String::new(),
            tier: std::env::var("VERIF_TIER").unwrap_or_else(|_| "quick".into()),
            seed: std::env::var("VERIF_SEED").ok().and_then(|s| s.parse().ok()).unwrap_or(0),
            only: None,
            out: None,
            args: vec![],
        };
        while let Some(x) = a.next() {
            match x.as_str() {
                "--tier" => cli.tier = a.next().expect("--tier value"),
                "--seed" => cli.seed = a.next().and_then(|s| s.parse().ok()).expect("--seed value"),
                "--only" => {
                    cli.only.get_or_insert_with(Default::default).insert(a.next().expect("--only value"));
                }
                "--only-file" => {
                    let p = a.next().expect("--only-file value");
                    let text = std::fs::read_to_string(p).expect("read --only-file");
                    let set = cli.only.get_or_insert_with(Default::default);
                    for l in text.lines() {
                        if !l.is_empty() {
                            set.insert(l.to_string());
                        }
                    }
                }
                "--out" => cli.out = Some(a.next().expect("--out value")),
                _ if cli.check.is_empty() => cli.check = x,
                _ => cli.args.push(x),
            }
        }
        if cli.tier != "quick" && cli.tier != "thorough" {
            cli.tier = "quick".into();
        }
        cli
    }

    pub fn thorough(&self) -> bool {
        self.tier == "thorough"
    }

    /// True when no `--only` filter is active or `desc` is selected by it.
    pub fn selected(&self, desc: &str) -> bool {
        match &self.only {
            None => true,
            Some(s) => s.contains(desc),
        }
    }

    /// Lazy variant: the descriptor is only built when a filter is active.
    pub fn selected_with(&self, desc: impl FnOnce() -> String) -> bool {
        match &self.only {
            None => true,
            Some(s) => s.contains(&desc()),
        }
    }
}

/// glibc malloc tuning: keep large blocks inside the arenas instead of mmap/munmap per allocation.
/// The codecs allocate and free several hundred KiB per instance; with 16 threads doing that the
/// kernel's address-space lock becomes the bottleneck (measured: negative scaling).
pub fn tune_malloc() {
    unsafe {
        libc::mallopt(libc::M_MMAP_THRESHOLD, 32 << 20);
        libc::mallopt(libc::M_TRIM_THRESHOLD, 1 << 30);
        libc::mallopt(libc::M_TOP_PAD, 16 << 20);
    }
}
