//! Shared machinery for the model-checking harnesses of lzma-rust2:
//! reports/evidence, parallel case runner with panic capture, input generators,
//! the deviation-bounded environment explorer, fault-injecting I/O and a counting allocator.

pub mod alloc;
pub mod explore;
pub mod fio;
pub mod gen;
pub mod report;
pub mod run;

pub use report::{Report, Violation};
