//! E-env: deviation-bounded stateless exploration of environment choices.
//!
//! The harness body calls `ctx.point(n)` whenever the environment has `n` possible answers.
//! Answer 0 is the default; any other answer costs one deviation. `explore` enumerates every
//! execution with at most `bound` deviations exactly once (an execution is identified by the
//! positions and values of its deviations): it replays a prefix of choices, takes 0 afterwards,
//! and branches only at points after the prefix.

#[derive(Default)]
pub struct Ctx {
    /// dense forced prefix (replays from a descriptor)
    forced: Vec<u32>,
    /// sparse forced prefix used by `explore`: (point index, choice, alternatives seen there), ascending; every
    /// other point below `forced_len` takes 0. (A dense prefix per pending branch would need memory quadratic
    /// in the number of points: 70 000 one-byte reads x 5 alternatives were 98 GB.)
    sparse: Vec<(u32, u32, u32)>,
    forced_len: usize,
    taken: Vec<u32>,
    alts: Vec<u32>,
    /// set when a replayed prefix met a different number of alternatives than recorded
    pub diverged: bool,
}

impl Ctx {
    pub fn with_forced(forced: Vec<u32>) -> Self {
        let n = forced.len();
        Ctx { forced, forced_len: n, ..Default::default() }
    }

    /// Environment choice point with `n >= 1` alternatives; returns the chosen alternative.
    pub fn point(&mut self, n: u32) -> u32 {
        debug_assert!(n >= 1);
        let i = self.taken.len();
        let c = if i < self.forced_len {
            let want = if !self.forced.is_empty() {
                self.forced[i]
            } else {
                match self.sparse.iter().find(|e| e.0 as usize == i) {
                    Some(e) => {
                        if e.2 != n {
                            self.diverged = true;
                        }
                        e.1
                    }
                    None => 0,
                }
            };
            if want >= n {
                self.diverged = true;
                0
            } else {
                want
            }
        } else {
            0
        };
        self.taken.push(c);
        self.alts.push(n);
        c
    }

    pub fn choices(&self) -> &[u32] {
        &self.taken
    }

    pub fn deviations(&self) -> u32 {
        self.taken.iter().filter(|c| **c != 0).count() as u32
    }

    /// Compact descriptor: only the deviating points, `index=choice` separated by commas.
    pub fn desc(&self) -> String {
        let v: Vec<String> = self
            .taken
            .iter()
            .enumerate()
            .filter(|(_, c)| **c != 0)
            .map(|(i, c)| format!("{i}={c}"))
            .collect();
        if v.is_empty() { "-".to_string() } else { v.join(",") }
    }
}

/// Parse the descriptor produced by `Ctx::desc` back into a forced choice vector.
pub fn parse_desc(s: &str) -> Option<Vec<u32>> {
    if s == "-" || s.is_empty() {
        return Some(vec![]);
    }
    let mut out: Vec<u32> = vec![];
    for part in s.split(',') {
        let (i, c) = part.split_once('=')?;
        let i: usize = i.parse().ok()?;
        let c: u32 = c.parse().ok()?;
        if out.len() <= i {
            out.resize(i + 1, 0);
        }
        out[i] = c;
    }
    Some(out)
}

#[derive(Default, Clone, Debug)]
pub struct Stats {
    pub runs: u64,
    pub points: u64,
    pub max_depth: usize,
    /// runs by number of deviations
    pub by_devs: Vec<u64>,
    pub capped: bool,
    pub diverged: u64,
}

impl Stats {
    pub fn merge(&mut self, o: &Stats) {
        self.runs += o.runs;
        self.points += o.points;
        self.max_depth = self.max_depth.max(o.max_depth);
        if self.by_devs.len() < o.by_devs.len() {
            self.by_devs.resize(o.by_devs.len(), 0);
        }
        for (i, v) in o.by_devs.iter().enumerate() {
            self.by_devs[i] += v;
        }
        self.capped |= o.capped;
        self.diverged += o.diverged;
    }
}

/// Explore all executions of `f` with at most `bound` deviations (at most `max_runs` runs; if the
/// cap is hit `capped` is set and the exploration is NOT exhaustive).
pub fn explore<F: FnMut(&mut Ctx)>(bound: u32, max_runs: u64, mut f: F) -> Stats {
    let mut st = Stats { by_devs: vec![0; bound as usize + 1], ..Default::default() };
    // stack of (sparse prefix = the deviations so far, prefix length)
    let mut stack: Vec<(Vec<(u32, u32, u32)>, usize)> = vec![(vec![], 0)];
    while let Some((sparse, plen)) = stack.pop() {
        if st.runs >= max_runs {
            st.capped = true;
            break;
        }
        let mut ctx = Ctx { sparse, forced_len: plen, ..Default::default() };
        f(&mut ctx);
        st.runs += 1;
        st.points += ctx.taken.len() as u64;
        st.max_depth = st.max_depth.max(ctx.taken.len());
        if ctx.diverged || ctx.taken.len() < plen {
            st.diverged += 1;
            continue;
        }
        let devs = ctx.deviations();
        st.by_devs[devs.min(bound) as usize] += 1;
        if devs >= bound {
            continue;
        }
        // branch at every point after the prefix; push in reverse so that earlier points and
        // smaller alternatives are explored first
        for i in (plen..ctx.taken.len()).rev() {
            for alt in (1..ctx.alts[i]).rev() {
                let mut p = ctx.sparse.clone();
                p.push((i as u32, alt, ctx.alts[i]));
                stack.push((p, i + 1));
            }
        }
    }
    st
}

#[cfg(test)]
mod tests {
    use super::*;
    #[test]
    fn counts() {
        // 3 points with 3 alternatives each, bound 2: 1 + 3*2 + C(3,2)*4 = 19
        let st = explore(2, u64::MAX, |c| {
            for _ in 0..3 {
                c.point(3);
            }
        });
        assert_eq!(st.runs, 19);
        assert_eq!(st.by_devs, vec![1, 6, 12]);
    }
    #[test]
    fn sparse_prefix_is_replayed() {
        // the run that deviates at point 1 (choice 2) and point 3 (choice 1) must be produced exactly once
        let mut seen = 0;
        explore(2, u64::MAX, |c| {
            for _ in 0..5 {
                c.point(3);
            }
            if c.desc() == "1=2,3=1" {
                seen += 1;
            }
        });
        assert_eq!(seen, 1);
    }
    #[test]
    fn desc_roundtrip() {
        let mut c = Ctx::with_forced(vec![0, 2, 0, 1]);
        for _ in 0..5 {
            c.point(3);
        }
        assert_eq!(c.desc(), "1=2,3=1");
        assert_eq!(parse_desc("1=2,3=1").unwrap(), vec![0, 2, 0, 1]);
    }
}
