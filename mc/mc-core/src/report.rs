//! Result record written by a harness binary and consumed by the `check` driver.

use serde_json::{json, Map, Value};
use std::collections::BTreeMap;
use std::sync::Mutex;

/// One failing case.
#[derive(Clone, Debug)]
pub struct Violation {
    /// panic | wrong-bytes | accepted-corruption | undecodable | no-error | deadlock | leak |
    /// overrun | hang | process-death | mismatch | ...
    pub kind: String,
    /// Where: panic file + message, error text, blocked-at function. Never a line number.
    pub site: String,
    /// Low-cardinality attributes used to match known findings.
    pub attrs: BTreeMap<String, String>,
    /// Canonical case descriptor; `--only <case>` re-executes exactly this case.
    pub case: String,
    /// Free text for humans.
    pub detail: String,
}

impl Violation {
    pub fn new(kind: &str, site: impl Into<String>, case: impl Into<String>) -> Self {
        Self {
            kind: kind.to_string(),
            site: site.into(),
            attrs: BTreeMap::new(),
            case: case.into(),
            detail: String::new(),
        }
    }
    pub fn attr(mut self, k: &str, v: impl ToString) -> Self {
        self.attrs.insert(k.to_string(), v.to_string());
        self
    }
    pub fn detail(mut self, d: impl Into<String>) -> Self {
        self.detail = d.into();
        self
    }
}

#[derive(Default)]
struct Group {
    count: u64,
    examples: Vec<(String, String)>, // (case, detail), simplest (shortest descriptor) first
}

/// Thread-safe collector. Violations are grouped by (kind, site, attrs); every group keeps its
/// count and its few simplest examples.
pub struct Report {
    pub property: String,
    inner: Mutex<Inner>,
}

#[derive(Default)]
struct Inner {
    groups: BTreeMap<(String, String, Vec<(String, String)>), Group>,
    counters: BTreeMap<String, u64>,
    samples: Vec<Value>,
    distinct: std::collections::HashSet<u64>,
    notes: Vec<String>,
    /// when set, every violation is also queued here (child processes stream them to a file)
    stream: Option<Vec<Violation>>,
    assumptions: Vec<String>,
    machinery_errors: Vec<String>,
    extra: Map<String, Value>,
    rule: String,
}

const EXAMPLES_PER_GROUP: usize = 4;

impl Report {
    pub fn new(property: &str) -> Self {
        Self {
            property: property.to_string(),
            inner: Mutex::new(Inner::default()),
        }
    }

    /// Queue violations for streaming (see `take_streamed`).
    pub fn enable_stream(&self) {
        self.inner.lock().unwrap().stream = Some(vec![]);
    }

    pub fn take_streamed(&self) -> Vec<Violation> {
        let mut g = self.inner.lock().unwrap();
        match g.stream.as_mut() {
            Some(v) => std::mem::take(v),
            None => vec![],
        }
    }

    pub fn counters(&self) -> BTreeMap<String, u64> {
        self.inner.lock().unwrap().counters.clone()
    }

    pub fn n_distinct(&self) -> usize {
        self.inner.lock().unwrap().distinct.len()
    }

    pub fn violation(&self, v: Violation) {
        let mut g = self.inner.lock().unwrap();
        if let Some(s) = g.stream.as_mut() {
            s.push(v.clone());
        }
        let key = (
            v.kind.clone(),
            v.site.clone(),
            v.attrs.iter().map(|(k, v)| (k.clone(), v.clone())).collect::<Vec<_>>(),
        );
        let grp = g.groups.entry(key).or_default();
        grp.count += 1;
        grp.examples.push((v.case, v.detail));
        grp.examples.sort_by(|a, b| (a.0.len(), &a.0).cmp(&(b.0.len(), &b.0)));
        grp.examples.truncate(EXAMPLES_PER_GROUP);
    }

    pub fn add(&self, counter: &str, n: u64) {
        let mut g = self.inner.lock().unwrap();
        *g.counters.entry(counter.to_string()).or_insert(0) += n;
    }

    pub fn max(&self, counter: &str, n: u64) {
        let mut g = self.inner.lock().unwrap();
        let e = g.counters.entry(counter.to_string()).or_insert(0);
        *e = (*e).max(n);
    }

    /// Adds a batch of counters at once (cheaper than many `add` calls).
    pub fn add_many(&self, items: &[(&str, u64)]) {
        let mut g = self.inner.lock().unwrap();
        for (k, n) in items {
            if *n > 0 {
                *g.counters.entry(k.to_string()).or_insert(0) += n;
            }
        }
    }

    pub fn get(&self, counter: &str) -> u64 {
        self.inner.lock().unwrap().counters.get(counter).copied().unwrap_or(0)
    }

    /// Record a distinct non-trivial case by hash of its descriptor.
    pub fn nontrivial(&self, hash: u64) {
        self.inner.lock().unwrap().distinct.insert(hash);
    }

    pub fn nontrivial_many(&self, hashes: &[u64]) {
        let mut g = self.inner.lock().unwrap();
        for h in hashes {
            g.distinct.insert(*h);
        }
    }

    pub fn sample(&self, v: Value) {
        let mut g = self.inner.lock().unwrap();
        if g.samples.len() < 12 {
            g.samples.push(v);
        }
    }

    pub fn n_samples(&self) -> usize {
        self.inner.lock().unwrap().samples.len()
    }

    pub fn note(&self, s: impl Into<String>) {
        self.inner.lock().unwrap().notes.push(s.into());
    }

    pub fn assumption(&self, s: impl Into<String>) {
        let s = s.into();
        let mut g = self.inner.lock().unwrap();
        if !g.assumptions.contains(&s) {
            g.assumptions.push(s);
        }
    }

    pub fn machinery_error(&self, s: impl Into<String>) {
        self.inner.lock().unwrap().machinery_errors.push(s.into());
    }

    pub fn rule(&self, s: impl Into<String>) {
        let s = s.into();
        let mut g = self.inner.lock().unwrap();
        if g.rule.is_empty() {
            g.rule = s;
        } else if !g.rule.contains(&s) {
            g.rule.push_str(" || ");
            g.rule.push_str(&s);
        }
    }

    pub fn extra(&self, k: &str, v: Value) {
        self.inner.lock().unwrap().extra.insert(k.to_string(), v);
    }

    pub fn n_violation_groups(&self) -> usize {
        self.inner.lock().unwrap().groups.len()
    }

    pub fn to_json(&self, tier: &str, seed: u64, wall_s: f64) -> Value {
        let g = self.inner.lock().unwrap();
        let mut groups = Vec::new();
        for ((kind, site, attrs), grp) in g.groups.iter() {
            let attrs: Map<String, Value> =
                attrs.iter().map(|(k, v)| (k.clone(), Value::String(v.clone()))).collect();
            groups.push(json!({
                "kind": kind, "site": site, "attrs": attrs, "count": grp.count,
                "examples": grp.examples.iter().map(|(c, d)| json!({"case": c, "detail": d})).collect::<Vec<_>>(),
            }));
        }
        let counters: Map<String, Value> =
            g.counters.iter().map(|(k, v)| (k.clone(), json!(v))).collect();
        json!({
            "property": self.property,
            "tier": tier,
            "seed": seed,
            "wall_s": wall_s,
            "counters": counters,
            "distinct_nontrivial": g.distinct.len(),
            "rule": g.rule,
            "samples": g.samples,
            "notes": g.notes,
            "assumptions": g.assumptions,
            "machinery_errors": g.machinery_errors,
            "extra": g.extra,
            "violation_groups": groups,
        })
    }
}

/// FNV-1a, used for descriptor hashing (distinctness counting) and output hashing.
pub fn fnv(data: &[u8]) -> u64 {
    let mut h: u64 = 0xcbf29ce484222325;
    for b in data {
        h ^= *b as u64;
        h = h.wrapping_mul(0x100000001b3);
    }
    h
}

pub fn hex(data: &[u8]) -> String {
    let mut s = String::with_capacity(data.len() * 2);
    for b in data {
        s.push_str(&format!("{b:02x}"));
    }
    s
}

pub fn unhex(s: &str) -> Option<Vec<u8>> {
    if s.len() % 2 != 0 {
        return None;
    }
    (0..s.len() / 2).map(|i| u8::from_str_radix(&s[2 * i..2 * i + 2], 16).ok()).collect()
}

/// Short printable form of a byte string for details: hex if short, else length + hash.
pub fn brief(data: &[u8]) -> String {
    if data.len() <= 48 {
        hex(data)
    } else {
        format!("len={} fnv={:016x} head={}", data.len(), fnv(data), hex(&data[..16]))
    }
}
