//! Bounded-exhaustive input families. Everything is produced in a fixed simplest-first order.

use std::sync::OnceLock;

/// Every byte string over `alphabet` with length 0..=max_len, shortest first, then lexicographic
/// by alphabet index.
pub fn micro(alphabet: &[u8], max_len: usize) -> Vec<Vec<u8>> {
    let mut out = vec![vec![]];
    let mut prev_start = 0;
    for _len in 1..=max_len {
        let prev_end = out.len();
        for i in prev_start..prev_end {
            for &a in alphabet {
                let mut s = out[i].clone();
                s.push(a);
                out.push(s);
            }
        }
        prev_start = prev_end;
    }
    out
}

/// Number of strings `micro` produces.
pub fn micro_count(k: usize, max_len: usize) -> usize {
    (0..=max_len).map(|l| k.pow(l as u32)).sum()
}

/// The `idx`-th string of `micro(alphabet, ..)` without materialising the list.
pub fn micro_nth(alphabet: &[u8], mut idx: usize) -> Vec<u8> {
    let k = alphabet.len();
    let mut len = 0;
    let mut block = 1usize;
    while idx >= block {
        idx -= block;
        block *= k;
        len += 1;
    }
    let mut s = vec![0u8; len];
    for i in (0..len).rev() {
        s[i] = alphabet[idx % k];
        idx /= k;
    }
    s
}

/// All compositions of `n` (ordered tuples of positive integers summing to n), as cut masks:
/// bit i set = a cut after byte i+1. There are 2^(n-1) of them (1 for n = 0).
pub fn compositions(n: usize) -> impl Iterator<Item = Vec<usize>> {
    let count: u64 = if n == 0 { 1 } else { 1u64 << (n - 1) };
    (0..count).map(move |mask| {
        let mut parts = vec![];
        let mut cur = 0usize;
        for i in 0..n {
            cur += 1;
            let cut = i + 1 == n || (mask >> i) & 1 == 1;
            if cut {
                parts.push(cur);
                cur = 0;
            }
        }
        parts
    })
}

#[derive(Clone, Debug, PartialEq, Eq)]
pub enum Seg {
    /// n zero bytes
    Z(usize),
    /// period-p pattern (bytes i % p), n bytes
    P(usize, usize),
    /// n incompressible bytes (xorshift, seeded)
    R(usize),
    /// n bytes of real compressible text (repeated as needed)
    C(usize),
    /// n bytes of a real executable (repeated as needed)
    X(usize),
    /// n bytes copied from `d` bytes back (d >= 1; if nothing is there yet, zeros)
    D(usize, usize),
    /// literal bytes
    L(Vec<u8>),
    /// "echo": n bytes, each the byte `d` back, except that one byte in 16 (pseudo-randomly, salt `s`) is a fresh letter
    /// from a 4-letter alphabet: rep matches at distance d interrupted by single literals, at every position
    E(usize, usize, u64),
}

impl Seg {
    pub fn len(&self) -> usize {
        match self {
            Seg::Z(n) | Seg::R(n) | Seg::C(n) | Seg::X(n) => *n,
            Seg::P(_, n) | Seg::D(_, n) | Seg::E(_, n, _) => *n,
            Seg::L(v) => v.len(),
        }
    }
    pub fn is_empty(&self) -> bool {
        self.len() == 0
    }
}

pub fn shape_desc(segs: &[Seg]) -> String {
    let mut s = String::new();
    for (i, g) in segs.iter().enumerate() {
        if i > 0 {
            s.push('+');
        }
        match g {
            Seg::Z(n) => s.push_str(&format!("Z{n}")),
            Seg::P(p, n) => s.push_str(&format!("P{p}x{n}")),
            Seg::R(n) => s.push_str(&format!("R{n}")),
            Seg::C(n) => s.push_str(&format!("C{n}")),
            Seg::X(n) => s.push_str(&format!("X{n}")),
            Seg::D(d, n) => s.push_str(&format!("D{d}x{n}")),
            Seg::L(v) => s.push_str(&format!("L{}", crate::report::hex(v))),
            Seg::E(d, n, salt) => s.push_str(&format!("E{d}x{n}s{salt}")),
        }
    }
    if s.is_empty() {
        s.push_str("empty");
    }
    s
}

static TEXT: OnceLock<Vec<u8>> = OnceLock::new();
static EXE: OnceLock<Vec<u8>> = OnceLock::new();

pub fn repo_dir() -> String {
    std::env::var("VERIF_REPO").unwrap_or_else(|_| "/repo".to_string())
}

pub fn text() -> &'static [u8] {
    TEXT.get_or_init(|| {
        std::fs::read(format!("{}/tests/data/apache2.txt", repo_dir()))
            .ok()
            .filter(|v| v.len() > 1000)
            .unwrap_or_else(|| {
                // synthetic fallback: word salad
                let words = ["the ", "license ", "of ", "work ", "and ", "shall ", "copyright ", "any ", "\n"];
                let mut v = Vec::new();
                let mut x = 12345u32;
                while v.len() < 12000 {
                    x = x.wrapping_mul(1103515245).wrapping_add(12345);
                    v.extend_from_slice(words[(x >> 16) as usize % words.len()].as_bytes());
                }
                v
            })
    })
}

pub fn exe() -> &'static [u8] {
    EXE.get_or_init(|| {
        std::fs::read(format!("{}/tests/data/wget-x86", repo_dir()))
            .ok()
            .filter(|v| v.len() > 1000)
            .unwrap_or_else(|| {
                let mut v = Vec::new();
                let mut x = 99u32;
                while v.len() < 400_000 {
                    x = x.wrapping_mul(1664525).wrapping_add(1013904223);
                    let op = [0xE8u8, 0x55, 0x89, 0xE5, 0x8B, 0x45, 0xC3, 0x00, 0xFF][(x >> 20) as usize % 9];
                    v.push(op);
                }
                v
            })
    })
}

pub struct XorShift(pub u64);

impl XorShift {
    pub fn new(seed: u64) -> Self {
        XorShift(seed.wrapping_mul(0x9E3779B97F4A7C15) ^ 0xD1B54A32D192ED03 | 1)
    }
    pub fn next(&mut self) -> u64 {
        let mut x = self.0;
        x ^= x << 13;
        x ^= x >> 7;
        x ^= x << 17;
        self.0 = x;
        x
    }
}

/// Materialise a shape. `seed` only selects the content of the incompressible pattern.
pub fn build(segs: &[Seg], seed: u64) -> Vec<u8> {
    let total: usize = segs.iter().map(|s| s.len()).sum();
    let mut out = Vec::with_capacity(total);
    for (si, g) in segs.iter().enumerate() {
        match g {
            Seg::Z(n) => out.resize(out.len() + n, 0),
            Seg::P(p, n) => {
                let p = (*p).max(1);
                for i in 0..*n {
                    out.push((i % p) as u8 ^ 0x41);
                }
            }
            Seg::R(n) => {
                let mut r = XorShift::new(seed.wrapping_add(si as u64 * 7919));
                let mut left = *n;
                while left > 0 {
                    let v = r.next().to_le_bytes();
                    let k = left.min(8);
                    out.extend_from_slice(&v[..k]);
                    left -= k;
                }
            }
            Seg::C(n) => {
                let t = text();
                let mut left = *n;
                let mut off = (si * 977) % t.len();
                while left > 0 {
                    let k = left.min(t.len() - off);
                    out.extend_from_slice(&t[off..off + k]);
                    left -= k;
                    off = 0;
                }
            }
            Seg::X(n) => {
                let t = exe();
                let mut left = *n;
                let mut off = (0x1000 + si * 4099) % t.len();
                while left > 0 {
                    let k = left.min(t.len() - off);
                    out.extend_from_slice(&t[off..off + k]);
                    left -= k;
                    off = 0;
                }
            }
            Seg::D(d, n) => {
                for _ in 0..*n {
                    let b = if out.len() >= *d && *d >= 1 { out[out.len() - d] } else { 0 };
                    out.push(b);
                }
            }
            Seg::L(v) => out.extend_from_slice(v),
            Seg::E(d, n, salt) => {
                let mut r = XorShift::new(salt.wrapping_mul(0x9E37_79B9_7F4A_7C15) | 1);
                for _ in 0..*n {
                    let x = r.next();
                    // salts >= 1000 are deterministic: the fresh letter sits at every position = salt - 1000 (mod 16), so
                    // that over the 16 phases every position of the stream follows a literal in exactly one of them
                    let fresh = if *salt >= 1000 { out.len() % 16 == (*salt - 1000) as usize % 16 } else { (x >> 8) % 16 == 0 };
                    let b = if out.len() < *d || *d == 0 || fresh { b'a' + ((x >> 20) % 4) as u8 } else { out[out.len() - d] };
                    out.push(b);
                }
            }
        }
    }
    out
}

/// Lengths at which the codec's mechanisms change behaviour (match length limits, dictionary
/// size 4096, LZMA2 64 KiB compressed / 2 MiB uncompressed chunk limits).
pub const BOUNDARY_LENS_SMALL: [usize; 9] = [1, 2, 272, 273, 274, 4095, 4096, 4097, 9000];
pub const BOUNDARY_LENS_MEDIUM: [usize; 3] = [65535, 65536, 65537];
pub const BOUNDARY_LENS_LARGE: [usize; 4] = [(2 << 20) - 274, (2 << 20) - 273, 2 << 20, (2 << 20) + 1];

/// SHAPES(cap): every concatenation of 1..=max_segs segments of the kinds Z,P,R,C,X,D with
/// lengths from `lens`, total length <= cap. Simplest (fewest segments, shortest) first.
pub fn shapes(lens: &[usize], cap: usize, max_segs: usize) -> Vec<Vec<Seg>> {
    let mut kinds: Vec<Seg> = vec![];
    for &n in lens {
        if n > cap {
            continue;
        }
        kinds.push(Seg::Z(n));
        kinds.push(Seg::R(n));
        kinds.push(Seg::C(n));
        if n >= 2 {
            kinds.push(Seg::P(3, n));
            kinds.push(Seg::X(n));
            kinds.push(Seg::D(1, n));
            if n > 300 {
                kinds.push(Seg::D(300, n));
            }
        }
    }
    let mut out: Vec<Vec<Seg>> = vec![];
    let mut level: Vec<Vec<Seg>> = vec![vec![]];
    for _ in 0..max_segs {
        let mut next = vec![];
        for base in &level {
            let used: usize = base.iter().map(|s| s.len()).sum();
            for k in &kinds {
                if used + k.len() > cap {
                    continue;
                }
                // a D segment first is just zeros; skip the duplicate
                if base.is_empty() && matches!(k, Seg::D(..)) {
                    continue;
                }
                // two adjacent zero runs are one zero run of another length; keep (boundary sums matter)
                let mut v = base.clone();
                v.push(k.clone());
                next.push(v);
            }
        }
        out.extend(next.iter().cloned());
        level = next;
    }
    out.sort_by_key(|v| (v.len(), v.iter().map(|s| s.len()).sum::<usize>()));
    out
}

#[cfg(test)]
mod tests {
    use super::*;
    #[test]
    fn micro_nth_matches() {
        let a = [0u8, 0x61, 0xFF];
        let all = micro(&a, 4);
        assert_eq!(all.len(), micro_count(3, 4));
        for (i, s) in all.iter().enumerate() {
            assert_eq!(&micro_nth(&a, i), s);
        }
    }
    #[test]
    fn compositions_count() {
        assert_eq!(compositions(5).count(), 16);
        for c in compositions(5) {
            assert_eq!(c.iter().sum::<usize>(), 5);
        }
    }
}
