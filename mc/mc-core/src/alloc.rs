//! Counting / poisoning / capping global allocator.
//!
//! Installed by a harness binary with `#[global_allocator]`. All bookkeeping is per OS thread
//! (thread-local), so parallel cases do not disturb each other's measurements. Memory allocated
//! on one thread and freed on another makes the *current* figure drift on both, which is why the
//! measuring checks run their cases on a single thread each and only look at `peak - base`.

use std::alloc::{GlobalAlloc, Layout, System};
use std::cell::Cell;

pub struct VerifAlloc;

/// Called (if set) with the requested size when a request exceeds the per-thread cap, right
/// before the allocation fails. Must be async-signal-safe in spirit: no allocation.
pub static CAP_HOOK: std::sync::atomic::AtomicUsize = std::sync::atomic::AtomicUsize::new(0);

#[inline]
fn cap_exceeded(size: usize) {
    let _ = CAP_HIT.try_with(|c| c.set(true));
    let h = CAP_HOOK.load(std::sync::atomic::Ordering::Relaxed);
    if h != 0 {
        let f: fn(usize) = unsafe { std::mem::transmute(h) };
        f(size);
    }
}

thread_local! {
    static CUR: Cell<isize> = const { Cell::new(0) };
    static PEAK: Cell<isize> = const { Cell::new(0) };
    static TOTAL: Cell<usize> = const { Cell::new(0) };
    static BIGGEST: Cell<usize> = const { Cell::new(0) };
    /// biggest request with alignment 1 (byte buffers) since `begin()`
    static BIGGEST_BYTES: Cell<usize> = const { Cell::new(0) };
    /// poison pattern (a little-endian 32-bit word repeated from the start of the block) for non-zeroed allocations;
    /// 0 = off, u64::MAX = not set on this thread (the process default applies)
    static POISON: Cell<u64> = const { Cell::new(u64::MAX) };
    /// a single request above this size fails (returns null) => the runtime aborts or panics
    static REQ_CAP: Cell<usize> = const { Cell::new(usize::MAX) };
    static CAP_HIT: Cell<bool> = const { Cell::new(false) };
}

#[inline]
fn on_alloc(size: usize) {
    let _ = CUR.try_with(|c| {
        let v = c.get().wrapping_add(size as isize);
        c.set(v);
        let _ = PEAK.try_with(|p| {
            if v > p.get() {
                p.set(v)
            }
        });
    });
    let _ = TOTAL.try_with(|c| c.set(c.get().wrapping_add(size)));
    let _ = BIGGEST.try_with(|c| {
        if size > c.get() {
            c.set(size)
        }
    });
}

#[inline]
fn on_layout(layout: Layout) {
    if layout.align() == 1 {
        let _ = BIGGEST_BYTES.try_with(|c| {
            if layout.size() > c.get() {
                c.set(layout.size())
            }
        });
    }
}

#[inline]
fn on_free(size: usize) {
    let _ = CUR.try_with(|c| c.set(c.get().wrapping_sub(size as isize)));
}

// ---------------------------------------------------------------------------------------------
// Guard-page mode (electric-fence style), selected for the whole life of a process by the
// environment variable VERIF_GUARD=after|before (read once, with getenv, at the first
// allocation). Every allocation of GUARD_MIN..=GUARD_MAX bytes gets its own mapping with an
// inaccessible page directly behind its last byte ("after": the end of the block is aligned
// down only as far as the layout's alignment demands) or directly in front of its first byte
// ("before"). Any access outside the block on that side is a SIGSEGV in the accessing
// instruction — also for raw-pointer reads and inline assembly, which no safe-code check sees.
pub const GUARD_MIN: usize = 1024;
pub const GUARD_MAX: usize = 1 << 30;
const PAGE: usize = 4096;
static GUARD_MODE: std::sync::atomic::AtomicU8 = std::sync::atomic::AtomicU8::new(0);
static GUARDED_ALLOCS: std::sync::atomic::AtomicU64 = std::sync::atomic::AtomicU64::new(0);

/// 1 = off, 2 = after, 3 = before
#[inline]
fn guard_mode() -> u8 {
    let m = GUARD_MODE.load(std::sync::atomic::Ordering::Relaxed);
    if m != 0 {
        return m;
    }
    let v = unsafe { libc::getenv(c"VERIF_GUARD".as_ptr()) };
    let m = if v.is_null() {
        1
    } else {
        match unsafe { *v } as u8 {
            b'a' => 2,
            b'b' => 3,
            _ => 1,
        }
    };
    GUARD_MODE.store(m, std::sync::atomic::Ordering::Relaxed);
    m
}

/// "off" | "after" | "before"
pub fn guard_mode_name() -> &'static str {
    match guard_mode() {
        2 => "after",
        3 => "before",
        _ => "off",
    }
}

pub fn guarded_allocations() -> u64 {
    GUARDED_ALLOCS.load(std::sync::atomic::Ordering::Relaxed)
}

/// Over-aligned and at least 256 MiB (the code under test's aligned multi-GiB tables): served by a mapping of its own,
/// zeroed or not, so that `dealloc` can recognise such blocks by their layout alone.
#[inline]
fn huge(layout: Layout) -> bool {
    layout.size() >= (256 << 20) && layout.align() > 16 && layout.align() <= PAGE
}

#[inline]
fn guarded(size: usize) -> bool {
    (GUARD_MIN..=GUARD_MAX).contains(&size) && guard_mode() >= 2
}

/// (offset of the block inside the mapping, length of the mapping)
#[inline]
fn guard_geometry(layout: Layout, mode: u8) -> (usize, usize) {
    let data = layout.size().div_ceil(PAGE) * PAGE;
    // over-aligned blocks (> one page) are not produced by the code under test
    let total = data + 2 * PAGE;
    if mode == 2 {
        let slack = (data - layout.size()) & !(layout.align().min(PAGE) - 1);
        (PAGE + slack, total)
    } else {
        (PAGE, total)
    }
}

// Mappings are recycled through a small cache keyed by their length: creating and destroying a
// mapping per allocation is very expensive in this sandbox (every fresh page faults in the
// hypervisor), and the same few sizes recur in every case.
const CACHE_SLOTS: usize = 256;
const CACHE_MAX_LEN: usize = 64 << 20;
static CACHE_LOCK: std::sync::atomic::AtomicBool = std::sync::atomic::AtomicBool::new(false);
static mut CACHE: [(usize, usize); CACHE_SLOTS] = [(0, 0); CACHE_SLOTS];
static mut CACHE_EVICT: usize = 0;

#[inline]
fn cache_lock() {
    while CACHE_LOCK.compare_exchange_weak(false, true, std::sync::atomic::Ordering::Acquire, std::sync::atomic::Ordering::Relaxed).is_err() {
        std::hint::spin_loop();
    }
}

#[inline]
fn cache_unlock() {
    CACHE_LOCK.store(false, std::sync::atomic::Ordering::Release);
}

/// returns (block, came from the cache: contents are stale, not zero)
unsafe fn guard_alloc(layout: Layout) -> (*mut u8, bool) {
    let mode = guard_mode();
    let (off, total) = guard_geometry(layout, mode);
    GUARDED_ALLOCS.fetch_add(1, std::sync::atomic::Ordering::Relaxed);
    if total <= CACHE_MAX_LEN {
        cache_lock();
        let cache = &mut *std::ptr::addr_of_mut!(CACHE);
        let mut found = 0usize;
        for e in cache.iter_mut() {
            if e.1 == total {
                found = e.0;
                *e = (0, 0);
                break;
            }
        }
        cache_unlock();
        if found != 0 {
            return ((found as *mut u8).add(off), true);
        }
    }
    let base = libc::mmap(std::ptr::null_mut(), total, libc::PROT_READ | libc::PROT_WRITE, libc::MAP_PRIVATE | libc::MAP_ANONYMOUS, -1, 0);
    if base == libc::MAP_FAILED {
        return (std::ptr::null_mut(), false);
    }
    let base = base as *mut u8;
    libc::mprotect(base as *mut libc::c_void, PAGE, libc::PROT_NONE);
    libc::mprotect(base.add(total - PAGE) as *mut libc::c_void, PAGE, libc::PROT_NONE);
    (base.add(off), false)
}

unsafe fn guard_dealloc(ptr: *mut u8, layout: Layout) {
    let (off, total) = guard_geometry(layout, guard_mode());
    let base = ptr.sub(off);
    let mut evicted = (0usize, 0usize);
    if total <= CACHE_MAX_LEN {
        cache_lock();
        let cache = &mut *std::ptr::addr_of_mut!(CACHE);
        let mut stored = false;
        for e in cache.iter_mut() {
            if e.1 == 0 {
                *e = (base as usize, total);
                stored = true;
                break;
            }
        }
        if !stored {
            let k = &mut *std::ptr::addr_of_mut!(CACHE_EVICT);
            *k = (*k + 1) % CACHE_SLOTS;
            evicted = cache[*k];
            cache[*k] = (base as usize, total);
        }
        cache_unlock();
    } else {
        evicted = (base as usize, total);
    }
    if evicted.1 != 0 {
        libc::munmap(evicted.0 as *mut libc::c_void, evicted.1);
    }
}

unsafe impl GlobalAlloc for VerifAlloc {
    unsafe fn alloc(&self, layout: Layout) -> *mut u8 {
        on_layout(layout);
        let cap = REQ_CAP.try_with(|c| c.get()).unwrap_or(usize::MAX);
        if layout.size() > cap {
            cap_exceeded(layout.size());
            return std::ptr::null_mut();
        }
        if huge(layout) {
            let p = libc::mmap(std::ptr::null_mut(), layout.size(), libc::PROT_READ | libc::PROT_WRITE, libc::MAP_PRIVATE | libc::MAP_ANONYMOUS | libc::MAP_NORESERVE, -1, 0);
            if p == libc::MAP_FAILED {
                return std::ptr::null_mut();
            }
            on_alloc(layout.size());
            let poison = poison_word();
            if poison != 0 {
                poison_fill(p as *mut u8, layout.size(), poison);
            }
            return p as *mut u8;
        }
        if guarded(layout.size()) {
            let (p, _) = guard_alloc(layout);
            if !p.is_null() {
                on_alloc(layout.size());
                let poison = poison_word();
                if poison != 0 {
                    poison_fill(p, layout.size(), poison);
                }
            }
            return p;
        }
        let p = System.alloc(layout);
        if !p.is_null() {
            on_alloc(layout.size());
            let poison = poison_word();
            if poison != 0 {
                poison_fill(p, layout.size(), poison);
            }
        }
        p
    }

    unsafe fn alloc_zeroed(&self, layout: Layout) -> *mut u8 {
        on_layout(layout);
        let cap = REQ_CAP.try_with(|c| c.get()).unwrap_or(usize::MAX);
        if layout.size() > cap {
            cap_exceeded(layout.size());
            return std::ptr::null_mut();
        }
        if huge(layout) {
            // std zeroes over-aligned blocks with memset, which would touch every page of a multi-GiB table; a fresh
            // anonymous mapping is zero and stays non-resident until it is written
            let p = libc::mmap(std::ptr::null_mut(), layout.size(), libc::PROT_READ | libc::PROT_WRITE, libc::MAP_PRIVATE | libc::MAP_ANONYMOUS | libc::MAP_NORESERVE, -1, 0);
            if p == libc::MAP_FAILED {
                return std::ptr::null_mut();
            }
            on_alloc(layout.size());
            return p as *mut u8;
        }
        if guarded(layout.size()) {
            let (p, stale) = guard_alloc(layout);
            if !p.is_null() {
                on_alloc(layout.size());
                if stale {
                    std::ptr::write_bytes(p, 0, layout.size());
                }
            }
            return p;
        }
        let p = System.alloc_zeroed(layout);
        if !p.is_null() {
            on_alloc(layout.size());
        }
        p
    }

    unsafe fn dealloc(&self, ptr: *mut u8, layout: Layout) {
        on_free(layout.size());
        if huge(layout) {
            libc::munmap(ptr as *mut libc::c_void, layout.size());
            return;
        }
        if guarded(layout.size()) {
            return guard_dealloc(ptr, layout);
        }
        System.dealloc(ptr, layout)
    }

    unsafe fn realloc(&self, ptr: *mut u8, layout: Layout, new_size: usize) -> *mut u8 {
        let cap = REQ_CAP.try_with(|c| c.get()).unwrap_or(usize::MAX);
        if new_size > cap {
            cap_exceeded(new_size);
            return std::ptr::null_mut();
        }
        if huge(layout) || huge(Layout::from_size_align_unchecked(new_size, layout.align())) || (guard_mode() >= 2 && (guarded(layout.size()) || guarded(new_size))) {
            let new_layout = Layout::from_size_align_unchecked(new_size, layout.align());
            let p = self.alloc(new_layout);
            if !p.is_null() {
                std::ptr::copy_nonoverlapping(ptr, p, layout.size().min(new_size));
                self.dealloc(ptr, layout);
            }
            return p;
        }
        let p = System.realloc(ptr, layout, new_size);
        if !p.is_null() {
            on_free(layout.size());
            on_alloc(new_size);
            let poison = poison_word();
            if poison != 0 && new_size > layout.size() {
                poison_fill(p.add(layout.size()), new_size - layout.size(), poison);
            }
        }
        p
    }
}

/// Start a measurement window on this thread: the level is reset to zero, so that the peak is
/// the largest net amount allocated since this call (memory allocated earlier and freed inside
/// the window can only lower it). Returns the base to pass to `peak_since`.
pub fn begin() -> usize {
    CUR.with(|c| c.set(0));
    PEAK.with(|p| p.set(0));
    BIGGEST.with(|b| b.set(0));
    BIGGEST_BYTES.with(|b| b.set(0));
    0
}

/// Biggest single request with alignment 1 (a byte buffer) since `begin()` on this thread.
pub fn biggest_bytes_request() -> usize {
    BIGGEST_BYTES.with(|b| b.get())
}

/// Peak bytes above `base` since `begin()`.
pub fn peak_since(base: usize) -> usize {
    (PEAK.with(|p| p.get()).max(0) as usize).saturating_sub(base)
}

pub fn current() -> usize {
    CUR.with(|c| c.get()).max(0) as usize
}

pub fn biggest_request() -> usize {
    BIGGEST.with(|b| b.get())
}

/// Poison byte of this thread (0 = off); overrides the process default.
pub fn set_poison(b: u8) {
    POISON.with(|c| c.set(u32::from_le_bytes([b; 4]) as u64));
}

/// Poison word of this thread: every non-zeroed block is filled with this 32-bit little-endian word (0 = off). Small
/// words (5, 0x100) look like plausible positions / counters / lengths to code that forgets to initialise a table,
/// which byte patterns such as A5A5A5A5 (a huge or negative number) often do not.
pub fn set_poison_word(w: u32) {
    POISON.with(|c| c.set(w as u64));
}

/// Back to the process default on this thread.
pub fn unset_poison() {
    POISON.with(|c| c.set(u64::MAX));
}

/// Process-wide default poison byte for threads that never called `set_poison` (0 = off). With a poison pattern every
/// block that the code under test did not ask to be zeroed starts with the same contents in every run, so that code
/// which reads memory before writing it behaves the same in the first run and in a replay.
pub fn set_default_poison(b: u8) {
    DEFAULT_POISON.store(u32::from_le_bytes([b; 4]), std::sync::atomic::Ordering::Relaxed);
}

static DEFAULT_POISON: std::sync::atomic::AtomicU32 = std::sync::atomic::AtomicU32::new(0);

#[inline]
fn poison_word() -> u32 {
    let v = POISON.try_with(|c| c.get()).unwrap_or(u64::MAX);
    if v == u64::MAX {
        DEFAULT_POISON.load(std::sync::atomic::Ordering::Relaxed)
    } else {
        v as u32
    }
}

#[inline]
unsafe fn poison_fill(p: *mut u8, len: usize, w: u32) {
    let b = w.to_le_bytes();
    if b[0] == b[1] && b[1] == b[2] && b[2] == b[3] {
        std::ptr::write_bytes(p, b[0], len);
    } else {
        for i in 0..len {
            *p.add(i) = b[i & 3];
        }
    }
}

/// Fail every single request larger than `cap` bytes on this thread.
pub fn set_request_cap(cap: usize) {
    REQ_CAP.with(|c| c.set(cap));
    CAP_HIT.with(|c| c.set(false));
}

pub fn cap_was_hit() -> bool {
    CAP_HIT.with(|c| c.get())
}
