//! Counting / poisoning / capping global allocator.
//!
//! Installed by a harness binary with `#[global_allocator]`. All bookkeeping is per OS thread
//! (thread-local), so parallel cases do not disturb each other's measurements. Memory allocated
//! on one thread and freed on another makes the *current* figure drift on both, which is why the
//! measuring checks run their cases on a single thread each and only look at `peak - base`.

use std::alloc::{GlobalAlloc, Layout, System};
use std::cell::Cell;

pub struct VerifAlloc;

/// Called (if set) with the requested size when a request exceeds the per-thread cap, right
/// before the allocation fails. Must be async-signal-safe in spirit: no allocation.
pub static CAP_HOOK: std::sync::atomic::AtomicUsize = std::sync::atomic::AtomicUsize::new(0);

#[inline]
fn cap_exceeded(size: usize) {
    let _ = CAP_HIT.try_with(|c| c.set(true));
    let h = CAP_HOOK.load(std::sync::atomic::Ordering::Relaxed);
    if h != 0 {
        let f: fn(usize) = unsafe { std::mem::transmute(h) };
        f(size);
    }
}

thread_local! {
    static CUR: Cell<isize> = const { Cell::new(0) };
    static PEAK: Cell<isize> = const { Cell::new(0) };
    static TOTAL: Cell<usize> = const { Cell::new(0) };
    static BIGGEST: Cell<usize> = const { Cell::new(0) };
    /// poison byte for non-zeroed allocations; 0 = off
    static POISON: Cell<u8> = const { Cell::new(0) };
    /// a single request above this size fails (returns null) => the runtime aborts or panics
    static REQ_CAP: Cell<usize> = const { Cell::new(usize::MAX) };
    static CAP_HIT: Cell<bool> = const { Cell::new(false) };
}

#[inline]
fn on_alloc(size: usize) {
    let _ = CUR.try_with(|c| {
        let v = c.get().wrapping_add(size as isize);
        c.set(v);
        let _ = PEAK.try_with(|p| {
            if v > p.get() {
                p.set(v)
            }
        });
    });
    let _ = TOTAL.try_with(|c| c.set(c.get().wrapping_add(size)));
    let _ = BIGGEST.try_with(|c| {
        if size > c.get() {
            c.set(size)
        }
    });
}

#[inline]
fn on_free(size: usize) {
    let _ = CUR.try_with(|c| c.set(c.get().wrapping_sub(size as isize)));
}

unsafe impl GlobalAlloc for VerifAlloc {
    unsafe fn alloc(&self, layout: Layout) -> *mut u8 {
        let cap = REQ_CAP.try_with(|c| c.get()).unwrap_or(usize::MAX);
        if layout.size() > cap {
            cap_exceeded(layout.size());
            return std::ptr::null_mut();
        }
        let p = System.alloc(layout);
        if !p.is_null() {
            on_alloc(layout.size());
            let poison = POISON.try_with(|c| c.get()).unwrap_or(0);
            if poison != 0 {
                std::ptr::write_bytes(p, poison, layout.size());
            }
        }
        p
    }

    unsafe fn alloc_zeroed(&self, layout: Layout) -> *mut u8 {
        let cap = REQ_CAP.try_with(|c| c.get()).unwrap_or(usize::MAX);
        if layout.size() > cap {
            cap_exceeded(layout.size());
            return std::ptr::null_mut();
        }
        let p = System.alloc_zeroed(layout);
        if !p.is_null() {
            on_alloc(layout.size());
        }
        p
    }

    unsafe fn dealloc(&self, ptr: *mut u8, layout: Layout) {
        on_free(layout.size());
        System.dealloc(ptr, layout)
    }

    unsafe fn realloc(&self, ptr: *mut u8, layout: Layout, new_size: usize) -> *mut u8 {
        let cap = REQ_CAP.try_with(|c| c.get()).unwrap_or(usize::MAX);
        if new_size > cap {
            cap_exceeded(new_size);
            return std::ptr::null_mut();
        }
        let p = System.realloc(ptr, layout, new_size);
        if !p.is_null() {
            on_free(layout.size());
            on_alloc(new_size);
            let poison = POISON.try_with(|c| c.get()).unwrap_or(0);
            if poison != 0 && new_size > layout.size() {
                std::ptr::write_bytes(p.add(layout.size()), poison, new_size - layout.size());
            }
        }
        p
    }
}

/// Start a measurement window on this thread: the level is reset to zero, so that the peak is
/// the largest net amount allocated since this call (memory allocated earlier and freed inside
/// the window can only lower it). Returns the base to pass to `peak_since`.
pub fn begin() -> usize {
    CUR.with(|c| c.set(0));
    PEAK.with(|p| p.set(0));
    BIGGEST.with(|b| b.set(0));
    0
}

/// Peak bytes above `base` since `begin()`.
pub fn peak_since(base: usize) -> usize {
    (PEAK.with(|p| p.get()).max(0) as usize).saturating_sub(base)
}

pub fn current() -> usize {
    CUR.with(|c| c.get()).max(0) as usize
}

pub fn biggest_request() -> usize {
    BIGGEST.with(|b| b.get())
}

pub fn set_poison(b: u8) {
    POISON.with(|c| c.set(b));
}

/// Fail every single request larger than `cap` bytes on this thread.
pub fn set_request_cap(cap: usize) {
    REQ_CAP.with(|c| c.set(cap));
    CAP_HIT.with(|c| c.set(false));
}

pub fn cap_was_hit() -> bool {
    CAP_HIT.with(|c| c.get())
}
