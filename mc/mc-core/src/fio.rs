//! Fault-injecting `Read` / `Write` / `Seek` driven by the environment explorer.

use crate::explore::Ctx;
use std::cell::RefCell;
use std::io::{self, ErrorKind, Read, Seek, SeekFrom, Write};

/// Read answers. Index 0 is always "full".
#[derive(Clone, Copy, Debug, PartialEq, Eq)]
pub enum ReadAns {
    Full,
    One,
    Two,
    Interrupted,
    /// sticky error with the injected kind
    Error,
    /// sticky end of file
    Eof,
}

pub const INJECTED_KIND: ErrorKind = ErrorKind::ConnectionReset;

pub struct FaultyRead<'a> {
    pub data: &'a [u8],
    pub pos: usize,
    ctx: &'a RefCell<Ctx>,
    menu: &'a [ReadAns],
    sticky: Option<ReadAns>,
    pub calls: u32,
    /// index of the call at which a sticky error was injected
    pub error_at: Option<u32>,
    pub eof_at: Option<(u32, usize)>,
    pub benign_devs: u32,
}

impl<'a> FaultyRead<'a> {
    pub fn new(data: &'a [u8], ctx: &'a RefCell<Ctx>, menu: &'a [ReadAns]) -> Self {
        Self { data, pos: 0, ctx, menu, sticky: None, calls: 0, error_at: None, eof_at: None, benign_devs: 0 }
    }
    pub fn remaining(&self) -> &'a [u8] {
        &self.data[self.pos..]
    }
}

impl Read for FaultyRead<'_> {
    fn read(&mut self, buf: &mut [u8]) -> io::Result<usize> {
        self.calls += 1;
        match self.sticky {
            Some(ReadAns::Error) => return Err(io::Error::new(INJECTED_KIND, "injected read error")),
            Some(ReadAns::Eof) => return Ok(0),
            _ => {}
        }
        if buf.is_empty() {
            return Ok(0);
        }
        let ans = self.menu[self.ctx.borrow_mut().point(self.menu.len() as u32) as usize];
        let avail = self.data.len() - self.pos;
        let n = match ans {
            ReadAns::Full => buf.len().min(avail),
            ReadAns::One => {
                self.benign_devs += 1;
                buf.len().min(avail).min(1)
            }
            ReadAns::Two => {
                self.benign_devs += 1;
                buf.len().min(avail).min(2)
            }
            ReadAns::Interrupted => {
                self.benign_devs += 1;
                return Err(io::Error::new(ErrorKind::Interrupted, "injected interrupt"));
            }
            ReadAns::Error => {
                self.sticky = Some(ReadAns::Error);
                self.error_at = Some(self.calls);
                return Err(io::Error::new(INJECTED_KIND, "injected read error"));
            }
            ReadAns::Eof => {
                self.sticky = Some(ReadAns::Eof);
                self.eof_at = Some((self.calls, self.pos));
                return Ok(0);
            }
        };
        buf[..n].copy_from_slice(&self.data[self.pos..self.pos + n]);
        self.pos += n;
        Ok(n)
    }
}

impl Seek for FaultyRead<'_> {
    fn seek(&mut self, pos: SeekFrom) -> io::Result<u64> {
        if let Some(ReadAns::Error) = self.sticky {
            return Err(io::Error::new(INJECTED_KIND, "injected read error"));
        }
        let len = self.data.len() as i64;
        let np = match pos {
            SeekFrom::Start(p) => p as i64,
            SeekFrom::End(o) => len + o,
            SeekFrom::Current(o) => self.pos as i64 + o,
        };
        if np < 0 {
            return Err(io::Error::new(ErrorKind::InvalidInput, "seek before start"));
        }
        self.pos = (np as usize).min(self.data.len());
        Ok(np as u64)
    }
}

#[derive(Clone, Copy, Debug, PartialEq, Eq)]
pub enum WriteAns {
    All,
    One,
    Interrupted,
    Error,
}

#[derive(Default, Debug)]
pub struct SinkState {
    pub out: Vec<u8>,
    pub calls: u32,
    pub flushes: u32,
    pub failed: bool,
    pub error_at: Option<u32>,
    pub benign_devs: u32,
}

/// Sink whose state outlives the writer that owns it (the writer may be lost on error).
pub struct FaultySink<'a> {
    st: &'a RefCell<SinkState>,
    ctx: &'a RefCell<Ctx>,
    menu: &'a [WriteAns],
}

impl<'a> FaultySink<'a> {
    pub fn new(st: &'a RefCell<SinkState>, ctx: &'a RefCell<Ctx>, menu: &'a [WriteAns]) -> Self {
        Self { st, ctx, menu }
    }
}

impl Write for FaultySink<'_> {
    fn write(&mut self, buf: &[u8]) -> io::Result<usize> {
        let mut st = self.st.borrow_mut();
        st.calls += 1;
        if st.failed {
            return Err(io::Error::new(INJECTED_KIND, "injected write error"));
        }
        if buf.is_empty() {
            return Ok(0);
        }
        let ans = self.menu[self.ctx.borrow_mut().point(self.menu.len() as u32) as usize];
        let n = match ans {
            WriteAns::All => buf.len(),
            WriteAns::One => {
                st.benign_devs += 1;
                1
            }
            WriteAns::Interrupted => {
                st.benign_devs += 1;
                return Err(io::Error::new(ErrorKind::Interrupted, "injected interrupt"));
            }
            WriteAns::Error => {
                st.failed = true;
                st.error_at = Some(st.calls);
                return Err(io::Error::new(INJECTED_KIND, "injected write error"));
            }
        };
        st.out.extend_from_slice(&buf[..n]);
        Ok(n)
    }

    fn flush(&mut self) -> io::Result<()> {
        let mut st = self.st.borrow_mut();
        st.flushes += 1;
        if st.failed {
            return Err(io::Error::new(INJECTED_KIND, "injected write error"));
        }
        Ok(())
    }
}

/// Plain slice reader that counts how many bytes were consumed (for "consumes exactly").
pub struct CountingSlice<'a> {
    pub data: &'a [u8],
    pub pos: usize,
}

impl Read for CountingSlice<'_> {
    fn read(&mut self, buf: &mut [u8]) -> io::Result<usize> {
        let n = buf.len().min(self.data.len() - self.pos);
        buf[..n].copy_from_slice(&self.data[self.pos..self.pos + n]);
        self.pos += n;
        Ok(n)
    }
}
