//! mc-cfg: transcript producer for C14. Built four times against /repo (std x optimization);
//! every build enumerates the SAME case list and writes one 64-bit observation per case:
//! for encode cases the hash of the compressed bytes (or the error class), for decode cases the
//! number of bytes produced before the end/error, their hash and the error class. The driver
//! compares the four transcripts position by position.
//!
//!   mc-cfg run <tier> <out-file>      write the transcript (8 bytes per case, little endian)
//!   mc-cfg desc <tier> <index>        print the descriptor of one case

#[cfg(feature = "std")]
use std::io::{Error, Read, Write};

#[cfg(not(feature = "std"))]
use lzma_rust2::{Error, Read, Write};

use lzma_rust2::verif::{bias, FilterConfig};
use lzma_rust2::{
    CheckType, EncodeMode, LZIPOptions, LZIPReader, LZIPWriter, LZMA2Options, LZMA2Reader, LZMA2Writer, LZMAOptions, LZMAReader, LZMAWriter, MFType, XZOptions, XZReader, XZWriter,
};
use mc_core::gen::{self, Seg};
use mc_core::report::fnv;
use std::num::NonZeroU64;
use std::sync::atomic::{AtomicU64, Ordering};

const A3: [u8; 3] = [0x00, 0x61, 0xFF];

#[derive(Clone, Copy, Debug)]
struct Opts {
    dict: u32,
    lc: u32,
    lp: u32,
    pb: u32,
    fast: bool,
    bt4: bool,
    nice: u32,
    depth: i32,
}

impl Opts {
    fn lzma(&self) -> LZMAOptions {
        LZMAOptions::new(
            self.dict,
            self.lc,
            self.lp,
            self.pb,
            if self.fast { EncodeMode::Fast } else { EncodeMode::Normal },
            self.nice,
            if self.bt4 { MFType::BT4 } else { MFType::HC4 },
            self.depth,
        )
    }
}

#[derive(Clone, Copy, Debug, PartialEq, Eq)]
enum Cont {
    LzmaHdr,
    LzmaRawSize,
    Lzma2,
    Lzma2ChunkFlush,
    XzCrc32,
    XzSha256Delta,
    Lzip,
}
const CONTS: [Cont; 7] = [Cont::LzmaHdr, Cont::LzmaRawSize, Cont::Lzma2, Cont::Lzma2ChunkFlush, Cont::XzCrc32, Cont::XzSha256Delta, Cont::Lzip];

fn err_class(e: &Error) -> u64 {
    #[cfg(feature = "std")]
    {
        use std::io::ErrorKind as K;
        match e.kind() {
            K::UnexpectedEof => 1,
            K::Interrupted => 2,
            K::InvalidData => 3,
            K::InvalidInput => 4,
            K::OutOfMemory => 5,
            K::Other => 6,
            K::Unsupported => 7,
            K::WriteZero => 8,
            _ => 9,
        }
    }
    #[cfg(not(feature = "std"))]
    {
        match e {
            Error::EOF => 1,
            Error::Interrupted => 2,
            Error::InvalidData(_) => 3,
            Error::InvalidInput(_) => 4,
            Error::OutOfMemory(_) => 5,
            Error::Other(_) => 6,
            Error::Unsupported(_) => 7,
            Error::WriteZero(_) => 8,
        }
    }
}

fn encode(c: Cont, o: &Opts, input: &[u8]) -> Result<Vec<u8>, Error> {
    let lo = o.lzma();
    match c {
        Cont::LzmaHdr => {
            let mut w = LZMAWriter::new_use_header(Vec::new(), &lo, None)?;
            w.write_all(input)?;
            w.finish()
        }
        Cont::LzmaRawSize => {
            let mut w = LZMAWriter::new_no_header(Vec::new(), &lo, false)?;
            w.write_all(input)?;
            w.finish()
        }
        Cont::Lzma2 => {
            let mut w = LZMA2Writer::new(Vec::new(), LZMA2Options { lzma_options: lo, chunk_size: None });
            w.write_all(input)?;
            w.finish()
        }
        Cont::Lzma2ChunkFlush => {
            let mut w = LZMA2Writer::new(Vec::new(), LZMA2Options { lzma_options: lo, chunk_size: NonZeroU64::new(1) });
            let half = input.len() / 2;
            w.write_all(&input[..half])?;
            w.flush()?;
            w.write_all(&input[half..])?;
            w.finish()
        }
        Cont::XzCrc32 | Cont::XzSha256Delta => {
            let mut xo = XZOptions::with_preset(6);
            xo.lzma_options = lo;
            xo.check_type = if c == Cont::XzCrc32 { CheckType::Crc32 } else { CheckType::Sha256 };
            if c == Cont::XzSha256Delta {
                xo.filters = vec![FilterConfig::new_delta(3)];
                xo.block_size = NonZeroU64::new(1);
            }
            let mut w = XZWriter::new(Vec::new(), xo)?;
            w.write_all(input)?;
            w.finish()
        }
        Cont::Lzip => {
            let mut w = LZIPWriter::new(Vec::new(), LZIPOptions { lzma_options: lo, member_size: None });
            w.write_all(input)?;
            w.finish()
        }
    }
}

/// Decode in 1 KiB steps; observation = (bytes before end/error, hash of them, error class or 0).
fn observe_decode<R: Read>(mut r: R) -> u64 {
    let mut buf = [0u8; 1024];
    let mut out: Vec<u8> = Vec::new();
    let class;
    loop {
        match r.read(&mut buf) {
            Ok(0) => {
                class = 0;
                break;
            }
            Ok(n) => {
                out.extend_from_slice(&buf[..n]);
                if out.len() > (8 << 20) {
                    class = 15;
                    break;
                }
            }
            Err(e) => {
                class = err_class(&e);
                break;
            }
        }
    }
    (fnv(&out) & 0x0000_FFFF_FFFF_FFF0) | class | ((out.len() as u64 & 0x0FFF) << 48)
}

fn decode(c: Cont, o: &Opts, data: &[u8], input_len: usize) -> u64 {
    match c {
        Cont::LzmaHdr => match LZMAReader::new_mem_limit(data, u32::MAX, None) {
            Ok(r) => observe_decode(r),
            Err(e) => 0xE000_0000_0000_0000 | err_class(&e),
        },
        Cont::LzmaRawSize => match LZMAReader::new(data, input_len as u64, o.lc, o.lp, o.pb, o.dict, None) {
            Ok(r) => observe_decode(r),
            Err(e) => 0xE000_0000_0000_0000 | err_class(&e),
        },
        Cont::Lzma2 | Cont::Lzma2ChunkFlush => observe_decode(LZMA2Reader::new(data, o.dict, None)),
        Cont::XzCrc32 | Cont::XzSha256Delta => observe_decode(XZReader::new(data, true)),
        Cont::Lzip => match LZIPReader::new(data) {
            Ok(r) => observe_decode(r),
            Err(e) => 0xE000_0000_0000_0000 | err_class(&e),
        },
    }
}

#[derive(Clone)]
enum Case {
    Enc { c: Cont, o: Opts, input: Vec<Seg>, bias: i32 },
    /// decode mutant `m` of corpus item `item`
    Dec { item: usize, pos: usize, val: u8, trunc: bool },
}

struct Item {
    c: Cont,
    o: Opts,
    input_len: usize,
    bytes: Vec<u8>,
}

fn grid(quick: bool) -> Vec<Opts> {
    let mut v = vec![];
    for &dict in &[4096u32, 5000, 65536] {
        for &lc in &[0u32, 3, 4, 8] {
            for &lp in &[0u32, 2, 4] {
                for &pb in &[0u32, 2, 4] {
                    for &nice in if quick { &[8u32, 273][..] } else { &[8u32, 32, 273][..] } {
                        for &fast in &[true, false] {
                            for &bt4 in &[false, true] {
                                for &depth in if quick { &[0i32, 4][..] } else { &[0i32, 1, 4, 1000][..] } {
                                    v.push(Opts { dict, lc, lp, pb, fast, bt4, nice, depth });
                                }
                            }
                        }
                    }
                }
            }
        }
    }
    v
}

fn accepts(c: Cont, o: &Opts) -> bool {
    match c {
        Cont::LzmaHdr | Cont::LzmaRawSize => true,
        Cont::Lzip => o.lc == 3 && o.lp == 0 && o.pb == 2,
        _ => o.lc + o.lp <= 4,
    }
}

fn cases(tier: &str) -> (Vec<Case>, Vec<Item>) {
    let quick = tier != "thorough";
    let mut v = vec![];
    let l = if quick { 3 } else { 4 };
    let g = grid(quick);
    for s in 0..gen::micro_count(3, l) {
        let bytes = gen::micro_nth(&A3, s);
        for o in &g {
            for c in CONTS {
                if accepts(c, o) {
                    v.push(Case::Enc { c, o: *o, input: vec![Seg::L(bytes.clone())], bias: 0 });
                }
            }
        }
    }
    let sub: Vec<Opts> = {
        let mut s = vec![];
        for &dict in &[4096u32, 65536, 1 << 20] {
            for &(lc, lp, pb) in &[(3u32, 0u32, 2u32), (0, 4, 4), (4, 0, 0)] {
                for &nice in &[8u32, 273] {
                    for &fast in &[true, false] {
                        for &bt4 in &[false, true] {
                            s.push(Opts { dict, lc, lp, pb, fast, bt4, nice, depth: 0 });
                        }
                    }
                }
            }
        }
        s
    };
    let l2 = if quick { 4 } else { 5 };
    for s in gen::micro_count(3, l)..gen::micro_count(3, l2) {
        let bytes = gen::micro_nth(&A3, s);
        for o in &sub {
            for c in CONTS {
                if accepts(c, o) {
                    v.push(Case::Enc { c, o: *o, input: vec![Seg::L(bytes.clone())], bias: 0 });
                }
            }
        }
    }
    let shapes: Vec<Vec<Seg>> = vec![
        vec![Seg::C(9000)],
        vec![Seg::X(20_000)],
        vec![Seg::R(70_000), Seg::C(3000)],
        vec![Seg::C(300_000)],
        vec![Seg::C(3000), Seg::R(3000), Seg::D(2500, 3000)],
    ];
    for sh in &shapes {
        for o in &sub {
            if o.dict == 1 << 20 && o.nice == 273 {
                continue;
            }
            for c in CONTS {
                if accepts(c, o) {
                    v.push(Case::Enc { c, o: *o, input: sh.clone(), bias: 0 });
                }
            }
        }
    }
    // the window buffer exactly full (and one byte around it) when the stream is finished, with matches running to the
    // last byte: the only place where the clamp of the unsafe match extension (`optimization`) and the slice bound of the
    // safe one can differ. The window size is observed from the allocator (largest byte buffer of a tiny encode); all
    // four builds must observe the same, otherwise their transcripts differ at these positions.
    for o in &sub {
        if o.dict > 65536 {
            continue;
        }
        for c in [Cont::LzmaHdr, Cont::Lzma2] {
            if !accepts(c, o) {
                continue;
            }
            mc_core::alloc::begin();
            let _ = mc_core::run::catch(|| encode(c, o, &[1, 2, 3]));
            let b = mc_core::alloc::biggest_bytes_request().max(8192);
            let d = o.dict as usize;
            for delta in [-1i64, 0, 1] {
                let total = (b as i64 + delta) as usize;
                for sh in [vec![Seg::R(64), Seg::P(3, total - 64)], vec![Seg::Z(total)], vec![Seg::R(d), Seg::D(d, total - d)]] {
                    v.push(Case::Enc { c, o: *o, input: sh, bias: 0 });
                }
                // short rep matches and literals at each of the last positions of the buffer (see C01)
                if delta <= 0 && o.lc == 3 && !o.fast {
                    for phase in 0..16u64 {
                        v.push(Case::Enc { c, o: *o, input: vec![Seg::C(total - 2000), Seg::E(if phase % 2 == 0 { 7 } else { 1000 }, 2000, 1000 + phase)], bias: 0 });
                    }
                }
            }
        }
    }
    // renormalisation: scalar vs SIMD paths of LZEncoder::normalize
    for back in [1i32, 5000, 70_000] {
        for sh in [vec![Seg::C(9000)], vec![Seg::X(12_000)], vec![Seg::C(80_000)], vec![Seg::C(3000), Seg::R(3000), Seg::D(2500, 3000)]] {
            for o in &sub {
                if o.dict > 65536 {
                    continue;
                }
                for c in [Cont::LzmaHdr, Cont::Lzma2] {
                    if accepts(c, o) {
                        v.push(Case::Enc { c, o: *o, input: sh.clone(), bias: 0x7FFF_FFFF - back });
                    }
                }
            }
        }
    }
    // decode corpus: written by this build's own encoders (the encode transcript above makes sure
    // all builds produce the same bytes)
    let o = Opts { dict: 4096, lc: 3, lp: 0, pb: 2, fast: true, bt4: false, nice: 32, depth: 0 };
    let mut items = vec![];
    for (c, segs) in [
        (Cont::LzmaHdr, vec![Seg::C(200)]),
        (Cont::LzmaRawSize, vec![Seg::C(200)]),
        (Cont::Lzma2, vec![Seg::C(200)]),
        (Cont::Lzma2, vec![Seg::R(100), Seg::Z(300)]),
        (Cont::Lzma2ChunkFlush, vec![Seg::P(3, 9000)]),
        (Cont::XzCrc32, vec![Seg::C(200)]),
        (Cont::XzSha256Delta, vec![Seg::P(5, 9000)]),
        (Cont::Lzip, vec![Seg::C(200)]),
        (Cont::Lzma2, vec![Seg::X(70_000)]),
    ] {
        let input = gen::build(&segs, 1);
        if let Ok(bytes) = encode(c, &o, &input) {
            items.push(Item { c, o, input_len: input.len(), bytes });
        }
    }
    for (ii, it) in items.iter().enumerate() {
        let stride = if it.bytes.len() > 2000 { 211 } else { 1 };
        for pos in (0..it.bytes.len()).step_by(stride) {
            for val in if quick { vec![0x00u8, 0xFF, it.bytes[pos] ^ 0x01, it.bytes[pos] ^ 0x80] } else { (0..=255u8).collect() } {
                if val != it.bytes[pos] {
                    v.push(Case::Dec { item: ii, pos, val, trunc: false });
                }
            }
            v.push(Case::Dec { item: ii, pos, val: 0, trunc: true });
        }
    }
    (v, items)
}

fn desc(c: &Case, items: &[Item]) -> String {
    match c {
        Case::Enc { c, o, input, bias } => format!("C14|enc|{:?}|{:?}|bias{}|{}", c, o, bias, gen::shape_desc(input)),
        Case::Dec { item, pos, val, trunc } => {
            let it = &items[*item];
            if *trunc {
                format!("C14|dec|item{}:{:?}|trunc@{}", item, it.c, pos)
            } else {
                format!("C14|dec|item{}:{:?}|sub@{}={:02x}", item, it.c, pos, val)
            }
        }
    }
}

fn run_case(c: &Case, items: &[Item]) -> u64 {
    match c {
        Case::Enc { c, o, input, .. } => {
            let data = gen::build(input, 0);
            match encode(*c, o, &data) {
                Ok(bytes) => fnv(&bytes) & 0x0FFF_FFFF_FFFF_FFF0,
                Err(e) => 0xE000_0000_0000_0000 | err_class(&e),
            }
        }
        Case::Dec { item, pos, val, trunc } => {
            let it = &items[*item];
            let data: Vec<u8> = if *trunc {
                it.bytes[..*pos].to_vec()
            } else {
                let mut d = it.bytes.clone();
                d[*pos] = *val;
                d
            };
            decode(it.c, &it.o, &data, it.input_len)
        }
    }
}

#[global_allocator]
static ALLOC: mc_core::alloc::VerifAlloc = mc_core::alloc::VerifAlloc;

fn main() {
    let a: Vec<String> = std::env::args().collect();
    if a.len() < 3 {
        eprintln!("usage: mc-cfg run <tier> <out> | desc <tier> <index>");
        std::process::exit(2);
    }
    mc_core::run::tune_malloc();
    mc_core::run::install_panic_hook();
    if std::env::var_os("VERIF_ASAN").is_none() {
        mc_core::alloc::set_default_poison(0xA5);
    }
    let (cs, items) = cases(&a[2]);
    if a[1] == "desc" {
        let i: usize = a[3].parse().expect("index");
        println!("{}", desc(&cs[i], &items));
        return;
    }
    let out: Vec<AtomicU64> = (0..cs.len()).map(|_| AtomicU64::new(0)).collect();
    // cases are grouped by bias (a process-global); run group by group
    let mut biases: Vec<i32> = cs.iter().map(|c| if let Case::Enc { bias, .. } = c { *bias } else { 0 }).collect();
    biases.sort_unstable();
    biases.dedup();
    for b in biases {
        bias::set(b);
        let idx: Vec<usize> = (0..cs.len()).filter(|i| (if let Case::Enc { bias, .. } = &cs[*i] { *bias } else { 0 }) == b).collect();
        mc_core::run::par_for(idx.len(), |k| {
            let i = idx[k];
            let r = mc_core::run::catch(|| run_case(&cs[i], &items));
            let v = match r {
                Ok(v) => v,
                Err(p) => 0xF000_0000_0000_0000 | (fnv(p.site().as_bytes()) & 0x0FFF_FFFF_FFFF_FFFF),
            };
            out[i].store(v, Ordering::Relaxed);
        });
    }
    bias::set(0);
    let mut bytes = Vec::with_capacity(cs.len() * 8);
    for v in &out {
        bytes.extend_from_slice(&v.load(Ordering::Relaxed).to_le_bytes());
    }
    std::fs::write(&a[3], bytes).expect("write transcript");
    let enc = cs.iter().filter(|c| matches!(c, Case::Enc { .. })).count();
    println!("{{\"cases\": {}, \"encode\": {}, \"decode\": {}}}", cs.len(), enc, cs.len() - enc);
}
